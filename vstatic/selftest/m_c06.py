from . import F, N

K = "kd_buf_parser.py"
P = "pykdebugparser.py"
TP = "traces_parser.py"
CP = "callstacks_parser.py"
M = "__main__.py"
MUTANTS = [
    F("C06", "seek_until without an end-of-stream exit (original defect)", K,
      "        byte = reader.read(1)\n        if not byte:\n            raise EOFError(f'{data!r} was not found before the end of the stream')\n        found = found[1:] + byte",
      "        found = found[1:] + reader.read(1)", "R1"),
    F("C06", "break -> continue in the v2 record loop", K,
      "            if not buf:\n                break\n            yield from_kd_buf(buf)", "            if not buf:\n                continue\n            yield from_kd_buf(buf)", "R1"),
    F("C06", "partial record padded into an event", K,
      "            if not buf:\n                break\n            yield from_kd_buf(buf)", "            if not buf:\n                break\n            yield from_kd_buf(buf.ljust(KEVENT_SIZE, b'\\0'))", "R2"),
    F("C06", "v3 chunk loop tolerates short reads", K,
      "                buf = reader.read(KEVENT_SIZE)\n                yield from_kd_buf(buf)",
      "                buf = reader.read(KEVENT_SIZE)\n                yield from_kd_buf(buf + b'\\0' * (KEVENT_SIZE - len(buf)))", "R2"),
    F("C06", "events materialised in the facade", P,
      "        events_generator = KdBufParser(self.threads_pids, self.pids_names).parse(kdebug)\n        events_generator = filter(lambda e: not isinstance(e, OsLogEvent), events_generator)\n        if self.filter_tid is not None:\n            events_generator = filter(lambda e: e.tid",
      "        events_generator = list(KdBufParser(self.threads_pids, self.pids_names).parse(kdebug))\n        events_generator = filter(lambda e: not isinstance(e, OsLogEvent), events_generator)\n        if self.filter_tid is not None:\n            events_generator = filter(lambda e: e.tid", "R3"),
    F("C06", "traces sorted by timestamp", P, "        return trace_generator\n\n    def formatted_traces",
      "        return sorted(trace_generator, key=lambda t: t.ktraces[0].timestamp)\n\n    def formatted_traces", "R3"),
    F("C06", "feed_generator buffers its input", TP,
      "        for event in generator:\n            ret = self.feed(event)", "        for event in list(generator):\n            ret = self.feed(event)", "R3"),
    F("C06", "print_with_count collects first", M,
      "    i = 0\n    for obj in generator:\n        if i == count:\n            break\n        print(obj)\n        i += 1",
      "    for obj in list(generator)[:count if count >= 0 else None]:\n        print(obj)", "R3"),
    F("C06", "print_with_count checks the count after printing", M,
      "        if i == count:\n            break\n        print(obj)\n        i += 1", "        print(obj)\n        i += 1\n        if i == count:\n            break", "R3"),
    F("C06", "parse_v2 returns a list", K,
      "        while True:\n            buf = reader.read(KEVENT_SIZE)\n            if not buf:\n                break\n            yield from_kd_buf(buf)",
      "        out = []\n        while True:\n            buf = reader.read(KEVENT_SIZE)\n            if not buf:\n                break\n            out.append(from_kd_buf(buf))\n        return out", "R3"),
    F("C06", "process filter as a list comprehension over the trace stream", P,
      "            trace_generator = filter(self._filter_process_callback, trace_generator)",
      "            trace_generator = [t for t in trace_generator if self._filter_process_callback(t)]", "R3"),
    F("C06", "record decoder made of slices: never fails on a short buffer", "kevent.py",
      "    timestamp, args_buf, tid, debugid, cpuid, unused = struct.unpack(KD_BUF_FORMAT, kd_buf)\n",
      "    timestamp = int.from_bytes(kd_buf[0:8], 'little')\n    args_buf = bytes(kd_buf[8:40])\n"
      "    tid = int.from_bytes(kd_buf[40:48], 'little')\n    debugid = int.from_bytes(kd_buf[48:52], 'little')\n", "R2"),
    N("C06", "len(buf) == 0 form", K, "            if not buf:\n                break", "            if buf == b'':\n                break"),
    N("C06", "seek_until returns False at EOF handled by raise in a helper form", K,
      "        if not byte:\n            raise EOFError(f'{data!r} was not found before the end of the stream')",
      "        if byte == b'':\n            raise EOFError('tag not found')"),
    N("C06", "generator expression stage", P,
      "        return map(lambda t: self._format_trace(t), self.traces(kdebug, trace_codes))",
      "        return (self._format_trace(t) for t in self.traces(kdebug, trace_codes))"),
    F("C06", "string record renames the data trace that was already reported", "trace_handlers/trace.py",
      "    if data is not None:\n        parser.pids_names[data.pid] = event.name\n    return event\n\n\ndef handle_trace_string_exec",
      "    if data is not None:\n        parser.pids_names[data.pid] = event.name\n        data.uniqueid = event.name\n    return event\n\n\ndef handle_trace_string_exec", "R6"),
    F("C06", "framing of a version-2 dump depends on the size of the file", K,
      "        while True:\n            buf = reader.read(KEVENT_SIZE)\n            if not buf:\n                break\n            yield from_kd_buf(buf)\n\n    def parse_v3",
      "        here = reader.tell()\n        size = reader.seek(0, io.SEEK_END)\n        reader.seek(here + (size - here) % KEVENT_SIZE)\n        while True:\n            buf = reader.read(KEVENT_SIZE)\n            if not buf:\n                break\n            yield from_kd_buf(buf)\n\n    def parse_v3", "R0"),
]
