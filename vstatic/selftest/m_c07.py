from . import F, N

B = "trace_handlers/bsd.py"
DY = "trace_handlers/dyld.py"
MA = "trace_handlers/mach.py"
TR = "trace_handlers/trace.py"
TP = "traces_parser.py"
PF = "trace_handlers/perf.py"
MUTANTS = [
    F("C07", "parse_vnode indexed by a caller-chosen position, guarded for emptiness only", "traces_parser.py",
      "    def parse_vnode(self, events):\n        try:\n            return self.parse_vnodes(events)[0]\n        except IndexError:\n            return Vnode([], 0, '')\n",
      "    def parse_vnode(self, events, index=0):\n        vnodes = self.parse_vnodes(events)\n        if not vnodes:\n            return Vnode([], 0, '')\n        return vnodes[index]\n", "R1"),
    F("C07", "renameat guard deleted", B, "    path2 = nodes[1].path if len(nodes) > 1 else ''\n    return BscRenameat(", "    path2 = nodes[1].path\n    return BscRenameat(", "R1"),
    F("C07", "len(x) > 1 weakened to truthiness", B, "    path2 = nodes[1].path if len(nodes) > 1 else ''\n    args = events[0].values\n    return BscLinkat(",
      "    path2 = nodes[1].path if nodes else ''\n    args = events[0].values\n    return BscLinkat(", "R1"),
    F("C07", "off-by-one length guard", B, "    name2 = nodes[1].path if len(nodes) > 1 else ''", "    name2 = nodes[1].path if len(nodes) >= 1 else ''", "R1"),
    F("C07", "dlsym indexes the table again", DY, "parser.global_strings.get(args[2], '')", "parser.global_strings[args[2]]", "R1"),
    F("C07", "truthiness of the id taken for membership", DY,
      "    path = parser.global_strings.get(args[1], '') if args[1] else ''\n    return DyldMapImage(", "    path = parser.global_strings[args[1]] if args[1] else ''\n    return DyldMapImage(", "R1"),
    F("C07", "vmfault None guard removed", MA, "            if vm_fault_real is not None:\n                pid = vm_fault_real.pid\n                caller_prot = vm_fault_real.caller_prot",
      "            pid = vm_fault_real.pid\n            caller_prot = vm_fault_real.caller_prot", "R1"),
    F("C07", "string record dereferences the missing data record", TR,
      "    data = parser.last_data_exec.get(events[0].tid)\n    if data is not None:\n        parser.pids_names[data.pid] = event.name",
      "    data = parser.last_data_exec.get(events[0].tid)\n    parser.pids_names[data.pid] = event.name", "R1"),
    F("C07", "string record indexes the per-thread table", TR,
      "    data = parser.last_data_exec.get(events[0].tid)\n", "    data = parser.last_data_exec[events[0].tid]\n", "R1"),
    F("C07", "END without START: guard lost", TP,
      "        if event.tid not in state or event.eventid not in state[event.tid]:\n            # Event end without start.\n            return\n", "", "R1"),
    F("C07", "END guard tests only the thread", TP,
      "        if event.tid not in state or event.eventid not in state[event.tid]:", "        if event.tid not in state:", None),
    F("C07", "thread terminate indexes tids_names", TR, "event.name = parser.tids_names.get(tid, '')", "event.name = parser.tids_names[tid]", "R1"),
    F("C07", "parse_vnode loses its fallback", TP,
      "        try:\n            return self.parse_vnodes(events)[0]\n        except IndexError:\n            return Vnode([], 0, '')",
      "        return self.parse_vnodes(events)[0]", "R1"),
    F("C07", "perf: thread info without the presence test", PF,
      "        if sub_events:\n            e.th_info = handle_thd_data(parser, sub_events)", "        e.th_info = handle_thd_data(parser, sub_events)", "R1"),
    F("C07", "vmfault __str__ uses type without the result test", MA,
      "        if self.result == 0:\n            ret += f', type: {self.fault_type.name}'", "        if True:\n            ret += f', type: {self.fault_type.name}'", "R1"),
    F("C07", "process name indexed without .get in the line builder", "pykdebugparser.py",
      "        process_name = self.pids_names.get(pid, '')\n        return f'{process_name}({pid})'", "        process_name = self.pids_names[pid] if pid != -1 else ''\n        return f'{process_name}({pid})'", "R6"),
    N("C07", "try/except instead of length test", B, "    path2 = nodes[1].path if len(nodes) > 1 else ''\n    return BscRenameat(",
      "    try:\n        path2 = nodes[1].path\n    except IndexError:\n        path2 = ''\n    return BscRenameat("),
    N("C07", "membership test instead of .get", DY, "parser.global_strings.get(args[2], '')", "(parser.global_strings[args[2]] if args[2] in parser.global_strings else '')"),
    N("C07", "early return form of the None guard", TR,
      "    data = parser.last_data_exec.get(events[0].tid)\n    if data is not None:\n        parser.pids_names[data.pid] = event.name\n    return event",
      "    data = parser.last_data_exec.get(events[0].tid)\n    if data is None:\n        return event\n    parser.pids_names[data.pid] = event.name\n    return event"),
    N("C07", "len(nodes) >= 2", B, "    name2 = nodes[1].path if len(nodes) > 1 else ''", "    name2 = nodes[1].path if len(nodes) >= 2 else ''"),
    N("C07", "setdefault in START", TP,
      "        if event.tid not in state:\n            # New tid\n            state[event.tid] = {}\n\n        state[event.tid][event.eventid] = []",
      "        state.setdefault(event.tid, {})[event.eventid] = []"),
    F("C07", "bare next() in the lookup assembler", "traces_parser.py",
      "        for event in events:\n            lookup_events.append(event)\n            if event.func_qualifier & DgbFuncQual.DBG_FUNC_START.value:",
      "        events = iter(events)\n        for event in events:\n            if not event.func_qualifier & 3:\n                event = next(events)\n            lookup_events.append(event)\n            if event.func_qualifier & DgbFuncQual.DBG_FUNC_START.value:", "R1"),
]
