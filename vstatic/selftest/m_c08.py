from . import F, N

TP = "traces_parser.py"
TR = "trace_handlers/trace.py"
B = "trace_handlers/bsd.py"
MUTANTS = [
    F("C08", "parse_vnode takes only the contiguous run of lookup records", TP,
      "            return self.parse_vnodes(events)[0]\n",
      "            return list(self.vnode_generator(itertools.takewhile(lambda e: self.trace_codes.get(e.eventid) == 'VFS_LOOKUP', events)))[0]\n",
      "R1", more=[(TP, "from collections import namedtuple\n", "from collections import namedtuple\nimport itertools\n")]),
    F("C08", "path slice starts inside the header", TP, "                path += event.data[8:]", "                path += event.data[4:]", "R1"),
    F("C08", "path slice skips two words", TP, "                path += event.data[8:]", "                path += event.data[16:]", "R1"),
    F("C08", "global string slice too short", TR, "            vstr += event.data[16:]", "            vstr += event.data[8:]", "R1"),
    F("C08", "chunks prepended", TP, "                path += event.data\n", "                path = event.data + path\n", "R1"),
    F("C08", "only trailing NULs stripped", TP, "path.replace(b'\\x00', b'').decode()", "path.rstrip(b'\\x00').decode()", "R1"),
    F("C08", "vnode id from the second word", TP, "                vnodeid = event.values[0]", "                vnodeid = event.values[1]", "R1"),
    F("C08", "lookup emitted on START instead of END", TP,
      "            if event.func_qualifier & DgbFuncQual.DBG_FUNC_END.value:\n                yield Vnode(",
      "            if event.func_qualifier & DgbFuncQual.DBG_FUNC_START.value:\n                yield Vnode(", "R1"),
    F("C08", "second path taken from all events (link)", B,
      "def handle_link(parser, events):\n    old_vnode = parser.parse_vnode(events)\n    new_vnode = parser.parse_vnode([e for e in events if e not in old_vnode.ktraces])",
      "def handle_link(parser, events):\n    old_vnode = parser.parse_vnode(events)\n    new_vnode = parser.parse_vnode(events)", "R3"),
    F("C08", "renameat paths swapped", B,
      "    path1 = nodes[0].path if nodes else ''\n    path2 = nodes[1].path if len(nodes) > 1 else ''\n    return BscRenameat(",
      "    path1 = nodes[1].path if len(nodes) > 1 else ''\n    path2 = nodes[0].path if nodes else ''\n    return BscRenameat(", "R3"),
    F("C08", "rename renders new before old", B,
      "return BscRename(events, old_vnode.path, new_vnode.path, serialize_result(events[-1]))",
      "return BscRename(events, new_vnode.path, old_vnode.path, serialize_result(events[-1]))", "R3"),
    F("C08", "path position shows the vnode id", B,
      "def handle_unlink(parser, events):\n    vnode = parser.parse_vnode(events)\n    return BscUnlink(events, vnode.path,",
      "def handle_unlink(parser, events):\n    vnode = parser.parse_vnode(events)\n    return BscUnlink(events, vnode.vnode_id,", "R3"),
    F("C08", "lookup records selected by a fixed id", TP,
      "self.trace_codes.get(e.eventid) == 'VFS_LOOKUP'", "e.eventid == 0x3010090", "R1"),
    N("C08", "explicit concatenation form", TP, "                path += event.data[8:]", "                path = path + event.data[8:]"),
    N("C08", "exchangedata: local names changed", B,
      "    vnode1 = parser.parse_vnode(events)\n    vnode2 = parser.parse_vnode([e for e in events if e not in vnode1.ktraces])\n    args = events[0].values\n    return BscExchangedata(events, vnode1.path, vnode2.path,",
      "    a = parser.parse_vnode(events)\n    b = parser.parse_vnode([ev for ev in events if ev not in a.ktraces])\n    args = events[0].values\n    return BscExchangedata(events, a.path, b.path,"),
]
