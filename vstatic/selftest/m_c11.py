from . import F, N

B = "trace_handlers/bsd.py"
MA = "trace_handlers/mach.py"
PF = "trace_handlers/perf.py"
DY = "trace_handlers/dyld.py"
MUTANTS = [
    F("C11", "protection byte shifted out without its mask", MA,
      "    caller_prot = to_vm_prot((args[1] >> 8) & 0xff)\n", "    caller_prot = to_vm_prot(args[1] >> 8)\n", "R7"),
    F("C11", "fault type mask one bit too wide", MA,
      "    fault_type = DbgVmFaultType(args[1] & 0xff)\n", "    fault_type = DbgVmFaultType(args[1] & 0x1ff)\n", "R7"),
    N("C11", "user tag peeled off by two successive shifts", MA,
      "    return addr_type(events, args[0], args[1] >> 16, caller_prot, fault_type, args[2], args[3])",
      "    rest = args[1] >> 8\n    return addr_type(events, args[0], rest >> 8, caller_prot, fault_type, args[2], args[3])"),
    F("C11", "one enum value changed", B, "    O_NOFOLLOW = 0x0100\n", "    O_NOFOLLOW = 0x0080\n", "R1"),
    F("C11", "AST bit changed", MA, "    AST_KPERF = 0x100\n", "    AST_KPERF = 0x1000000\n", "R1"),
    F("C11", "& -> == in a comprehension", MA, "return [s for s in ThreadState if s.value & flags]", "return [s for s in ThreadState if s.value == flags]", None),
    F("C11", "two-bit member added to a flag enum", PF, "    CALLSTACK_FIXUP_PC = 0x100\n", "    CALLSTACK_FIXUP_PC = 0x100\n    CALLSTACK_USERISH = 0x84\n", "R2"),
    F("C11", "stat flags back to iterating the Flag class", B, "for flag in StatFlags.__members__.values():", "for flag in StatFlags:", "R4"),
    F("C11", "member dropped from the tested tuple", B, "BscOpenFlags.O_CREAT, BscOpenFlags.O_APPEND, BscOpenFlags.O_TRUNC,", "BscOpenFlags.O_CREAT, BscOpenFlags.O_TRUNC,", "R4"),
    F("C11", "ioctl length shift", B, "length = (self.request >> 16) & 0x1fff", "length = (self.request >> 17) & 0x1fff", "R5"),
    F("C11", "ioctl length mask", B, "length = (self.request >> 16) & 0x1fff", "length = (self.request >> 16) & 0xfff", "R5"),
    F("C11", "ioctl direction mask back to 0xf0000000", B, "IOC_REQUEST_PARAMS[self.request & 0xe0000000]", "IOC_REQUEST_PARAMS[self.request & 0xf0000000]", "R5"),
    F("C11", "ioctl direction names swapped", B, "    0x40000000: 'IOC_OUT',\n    0x80000000: 'IOC_IN',", "    0x40000000: 'IOC_IN',\n    0x80000000: 'IOC_OUT',", "R5"),
    F("C11", "file type compared with the wrong mask", B, "S_IFMT = 0o170000", "S_IFMT = 0o160000", "R1"),
    F("C11", "file types shown by bit test", B, "            if flags & S_IFMT == flag.value:\n", "            if flags & flag.value:\n", "R2"),
    F("C11", "rtld: NODELETE value", DY, "    RTLD_NODELETE = 0x80\n", "    RTLD_NODELETE = 0x20\n", "R1"),
    F("C11", "msg flags tested against the wrong member value", B,
      "flags = [flag for flag in SocketMsgFlags if flag.value & args[3]]", "flags = [flag for flag in SocketMsgFlags if (flag.value << 1) & args[3]]", "R2"),
    N("C11", "operands of & swapped", MA, "return [s for s in ThreadState if s.value & flags]", "return [s for s in ThreadState if flags & s.value]"),
    N("C11", "explicit loop instead of comprehension", PF, "    return [c for c in CallstackFlag if c.value & flags]",
      "    out = []\n    for c in CallstackFlag:\n        if c.value & flags:\n            out.append(c)\n    return out"),
    N("C11", "list() around the class", DY, "return [r for r in RtldFlag if r.value & flags]", "return [r for r in list(RtldFlag) if r.value & flags]"),
    N("C11", "ioctl field via mask then shift", B, "length = (self.request >> 16) & 0x1fff", "length = (self.request & 0x1fff0000) >> 16"),
    F("C11", "AST_NONE shown whenever no declared reason matched", "trace_handlers/mach.py",
      "    if not flags:\n        return [AsynchronousSystemTrapsReason.AST_NONE]\n    else:\n        return [r for r in AsynchronousSystemTrapsReason if r.value & flags]",
      "    reasons = [r for r in AsynchronousSystemTrapsReason if r.value & flags]\n    return reasons or [AsynchronousSystemTrapsReason.AST_NONE]", "R8"),
    N("C11", "zero test spelled flags == 0", "trace_handlers/mach.py",
      "    if not flags:\n        return [AsynchronousSystemTrapsReason.AST_NONE]\n    else:\n        return [r for r in AsynchronousSystemTrapsReason if r.value & flags]",
      "    if flags == 0:\n        return [AsynchronousSystemTrapsReason.AST_NONE]\n    reasons = []\n    for r in AsynchronousSystemTrapsReason:\n        if not r.value & flags:\n            continue\n        reasons.append(r)\n    return reasons"),
    F("C11", "access mode looked up from what is left of the word after ticking off the named bits", "trace_handlers/bsd.py",
      '    call_flags = []\n    for flag in (BscOpenFlags.O_RDWR, BscOpenFlags.O_WRONLY):\n        if flags & flag.value:\n            call_flags.append(flag)\n            break\n    else:  # No break.\n        call_flags.append(BscOpenFlags.O_RDONLY)\n',
      """    rest = flags
    for flag in (BscOpenFlags.O_CREAT, BscOpenFlags.O_APPEND, BscOpenFlags.O_TRUNC, BscOpenFlags.O_EXCL):
        if rest & flag.value:
            rest &= ~flag.value
    call_flags = [_ACCESS_MODES.get(rest, BscOpenFlags.O_RDONLY)]
""", "R9", more=[("trace_handlers/bsd.py", "def serialize_open_flags(", "_ACCESS_MODES = {0: BscOpenFlags.O_RDONLY, 1: BscOpenFlags.O_WRONLY, 2: BscOpenFlags.O_RDWR, 3: BscOpenFlags.O_RDWR}\n\n\ndef serialize_open_flags(")]),
    N("C11", "access mode looked up from the two-bit field", "trace_handlers/bsd.py",
      '    call_flags = []\n    for flag in (BscOpenFlags.O_RDWR, BscOpenFlags.O_WRONLY):\n        if flags & flag.value:\n            call_flags.append(flag)\n            break\n    else:  # No break.\n        call_flags.append(BscOpenFlags.O_RDONLY)\n',
      """    call_flags = [_ACCESS_MODES.get(flags & 3, BscOpenFlags.O_RDONLY)]
""", more=[("trace_handlers/bsd.py", "def serialize_open_flags(", "_ACCESS_MODES = {0: BscOpenFlags.O_RDONLY, 1: BscOpenFlags.O_WRONLY, 2: BscOpenFlags.O_RDWR, 3: BscOpenFlags.O_RDWR}\n\n\ndef serialize_open_flags(")]),
    N("C11", "access mode selected by the loop variable at break", "trace_handlers/bsd.py",
      '    call_flags = []\n    for flag in (BscOpenFlags.O_RDWR, BscOpenFlags.O_WRONLY):\n        if flags & flag.value:\n            call_flags.append(flag)\n            break\n    else:  # No break.\n        call_flags.append(BscOpenFlags.O_RDONLY)\n',
      """    for access_mode in (BscOpenFlags.O_RDWR, BscOpenFlags.O_WRONLY):
        if flags & access_mode.value:
            break
    else:
        access_mode = BscOpenFlags.O_RDONLY
    call_flags = [access_mode]
"""),
    F("C11", "member value taken from the host's socket module", B, "    MSG_PEEK = 0x2\n", "    MSG_PEEK = socket.MSG_PEEK\n", "R1"),
    N("C11", "member value written as a shift", B, "    MSG_PEEK = 0x2\n", "    MSG_PEEK = 1 << 1\n"),
    F("C11", "the mode word is cut to the permission bits before the file type is looked for", B,
      "    return BscFchmod(events, args[0], serialize_stat_flags(args[1]), serialize_result(events[-1]))",
      "    return BscFchmod(events, args[0], serialize_stat_flags(args[1] & 0o7777), serialize_result(events[-1]))", "R7"),
    N("C11", "the mode word is cut to 32 bits", B,
      "    return BscFchmod(events, args[0], serialize_stat_flags(args[1]), serialize_result(events[-1]))",
      "    return BscFchmod(events, args[0], serialize_stat_flags(args[1] & 0xffffffff), serialize_result(events[-1]))"),
    F("C11", "access mode of faccessat decoded from the flag word", B,
      "    amode = serialize_access_flags(args[2])\n    return BscFaccessat(", "    amode = serialize_access_flags(args[3])\n    return BscFaccessat(", "R0"),
    F("C11", "protections of a fault hidden for pid 0", MA,
      "            if self.pid is not None and self.caller_prot is not None:", "            if self.pid and self.caller_prot is not None:", "R0"),
    N("C11", "faccessat access mode through a named word", B,
      "    amode = serialize_access_flags(args[2])\n    return BscFaccessat(", "    mode_word = args[2]\n    amode = serialize_access_flags(mode_word)\n    return BscFaccessat("),
]
