from . import F, N

P = "pykdebugparser.py"
K = "kd_buf_parser.py"
TP = "traces_parser.py"
PF = "trace_handlers/perf.py"
TR = "trace_handlers/trace.py"
MUTANTS = [
    F("C14", "all log records decoded and declared before the first is yielded", "kd_buf_parser.py",
      "        for event in log_events:\n            log_event = OsLogEvent.from_raw_log_event(event, log_strings)\n"
      "            if log_event.process and log_event.thread_identifier:\n"
      "                self.threads_pids[log_event.thread_identifier] = log_event.process_identifier\n"
      "                self.pids_names[log_event.process_identifier] = log_event.process\n            yield log_event\n",
      "        decoded = [OsLogEvent.from_raw_log_event(event, log_strings) for event in log_events]\n"
      "        for log_event in decoded:\n"
      "            if log_event.process and log_event.thread_identifier:\n"
      "                self.threads_pids[log_event.thread_identifier] = log_event.process_identifier\n"
      "                self.pids_names[log_event.process_identifier] = log_event.process\n        yield from decoded\n", "R4"),
    N("C14", "private helper _format_kevent renamed", "pykdebugparser.py", "_format_kevent", "_render_kevent", all_occurrences=True),
    N("C14", "private helper _format_process renamed", "pykdebugparser.py", "_format_process", "_render_process", all_occurrences=True),
    F("C14", "a piece testing two switches", P,
      "        formatted_data += f'{tid:>11} ' if self.show_tid else ''\n        if self.show_process:\n            formatted_data += f'{self._format_process(tid):<34}'\n        event_rep = str(trace)",
      "        formatted_data += f'{tid:>11} ' if self.show_tid and self.show_timestamp else ''\n        if self.show_process:\n            formatted_data += f'{self._format_process(tid):<34}'\n        event_rep = str(trace)", "R1"),
    F("C14", "accumulator reset mid-way", P,
      "        formatted_data += f'{hex(tid):<12}' if self.show_tid else ''", "        formatted_data = f'{hex(tid):<12}' if self.show_tid else ''", "R1"),
    F("C14", "column switched off leaves padding", P,
      "        formatted_data += f'{str(event.data):<34}' if self.show_args else ''", "        formatted_data += f'{str(event.data):<34}' if self.show_args else ' ' * 34", "R1"),
    F("C14", "columns reordered in traces", P,
      "        if self.show_timestamp:\n            formatted_data += self._format_timestamp(trace.ktraces[0].timestamp)\n        formatted_data += f'{tid:>11} ' if self.show_tid else ''",
      "        formatted_data += f'{tid:>11} ' if self.show_tid else ''\n        if self.show_timestamp:\n            formatted_data += self._format_timestamp(trace.ktraces[0].timestamp)", "R1"),
    F("C14", "process column width depends on show_tid", P,
      "        if self.show_process:\n            formatted_data += f'{self._format_process(tid):<34}'\n        ret = [formatted_data]",
      "        if self.show_process:\n            formatted_data += f'{self._format_process(tid):<34}' if self.show_tid else self._format_process(tid)\n        ret = [formatted_data]", "R1"),
    F("C14", "constructor copies the table", K,
      "        self.threads_pids = {} if threads_pids is None else threads_pids", "        self.threads_pids = {} if threads_pids is None else dict(threads_pids)", "R2"),
    F("C14", "trace decoder gets a copy", P,
      "TracesParser(trace_codes_map, self.threads_pids, self.pids_names)", "TracesParser(trace_codes_map, dict(self.threads_pids), self.pids_names)", "R2"),
    F("C14", "thread map rebinding", K, "        self.threads_pids.clear()\n", "        self.threads_pids = {}\n", "R2"),
    F("C14", "sentinel default replaced by 0", P,
      "    def _format_process(self, tid):\n        pid = self.threads_pids.get(tid, -1)", "    def _format_process(self, tid):\n        pid = self.threads_pids.get(tid, 0)", "R3"),
    F("C14", "unknown thread attributed to the last process", P,
      "        return f'{process_name}({pid})' if pid != -1 else f'Error: tid {tid}'",
      "        return f'{process_name}({pid})' if pid != -1 else f'{self.pids_names.get(0, \"kernel_task\")}(0)'", "R3"),
    F("C14", "trace line names the process of the last record's thread id word", P,
      "    def _format_trace(self, trace):\n        tid = trace.ktraces[0].tid", "    def _format_trace(self, trace):\n        tid = trace.ktraces[0].values[0]", "R3"),
    F("C14", "new writer of the tables (context switch records)", PF,
      "def handle_thd_cswitch(parser, events):\n    args = events[0].values\n", "def handle_thd_cswitch(parser, events):\n    args = events[0].values\n    parser.threads_pids[args[0]] = args[1]\n", "R4"),
    F("C14", "sampler record no longer updates the table", PF, "    parser.threads_pids[tid] = pid\n", "", "R4"),
    F("C14", "terminate record forgets the thread", TR,
      "    event = TraceDataThreadTerminate(events, tid, parser.threads_pids.get(tid))", "    event = TraceDataThreadTerminate(events, tid, parser.threads_pids.pop(tid, None))", "R4"),
    N("C14", "if-statement form of a column", P,
      "        formatted_data += f'{hex(tid):<12}' if self.show_tid else ''", "        if self.show_tid:\n            formatted_data += f'{hex(tid):<12}'"),
    N("C14", "pieces collected with join-free concatenation of locals", P,
      "        formatted_data += f'{tid:>11} ' if self.show_tid else ''\n        if self.show_process:\n            formatted_data += f'{self._format_process(tid):<34}'\n        event_rep = str(trace)",
      "        tid_col = f'{tid:>11} ' if self.show_tid else ''\n        formatted_data = formatted_data + tid_col\n        if self.show_process:\n            formatted_data += f'{self._format_process(tid):<34}'\n        event_rep = str(trace)"),
    N("C14", "== sentinel form", P,
      "        return f'{process_name}({pid})' if pid != -1 else f'Error: tid {tid}'", "        return f'Error: tid {tid}' if pid == -1 else f'{process_name}({pid})'"),
    F("C14", "a thread-name record declares the name only when the name is not empty", TR,
      "    if data is not None:\n        parser.pids_names[data.pid] = event.name\n    return event\n\n\ndef handle_trace_string_exec",
      "    if data is not None and event.name:\n        parser.pids_names[data.pid] = event.name\n    return event\n\n\ndef handle_trace_string_exec", "R4"),
    N("C14", "the pending record is tested with a nested if", TR,
      "    if data is not None:\n        parser.pids_names[data.pid] = event.name\n    return event\n\n\ndef handle_trace_string_exec",
      "    if data is None:\n        return event\n    parser.pids_names[data.pid] = event.name\n    return event\n\n\ndef handle_trace_string_exec"),
]
