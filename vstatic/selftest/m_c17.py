from . import F, N

B = "trace_handlers/bsd.py"
MUTANTS = [
    F("C17", "base entry deleted", B, "    'BSC_read': handle_read,\n", "", "R3"),
    F("C17", "misspelt key", B, "    'BSC_fchdir': handle_fchdir,", "    'BSC_fchdri': handle_fchdir,", "R1"),
    F("C17", "twin points at another handler", B,
      "'BSC_write_nocancel': partial(handle_write, no_cancel=True)", "'BSC_write_nocancel': partial(handle_read, no_cancel=True)", "R3"),
    F("C17", "twin does not bind no_cancel", B,
      "'BSC_write_nocancel': partial(handle_write, no_cancel=True)", "'BSC_write_nocancel': partial(handle_write)", "R3"),
    F("C17", "no_cancel dropped from constructor", B,
      "return BscWrite(events, args[0], args[1], args[2], result, no_cancel)", "return BscWrite(events, args[0], args[1], args[2], result)", "R4"),
    F("C17", "twin renders one argument differently", B,
      "return f'write{no_cancel}({self.fd}, {hex(self.address)}, {self.size}), {self.result}'",
      "return f'write{no_cancel}({self.fd}, {hex(self.address) if not self.no_cancel else self.address}, {self.size}), {self.result}'", "R4"),
    F("C17", "suffix misspelt", B,
      "class BscWrite:\n    ktraces: List\n    fd: int\n    address: int\n    size: int\n    result: str\n    no_cancel: bool = False\n\n    def __str__(self):\n        no_cancel = '_nocancel' if self.no_cancel else ''",
      "class BscWrite:\n    ktraces: List\n    fd: int\n    address: int\n    size: int\n    result: str\n    no_cancel: bool = False\n\n    def __str__(self):\n        no_cancel = '_nocancle' if self.no_cancel else ''", "R4"),
    F("C17", "name claimed by two families", "trace_handlers/dyld.py",
      "    'DYLD_uuid_map_a': handle_uuid_map_a,", "    'DYLD_uuid_map_a': handle_uuid_map_a,\n    'BSC_read': handle_uuid_map_a,", "R2"),
    F("C17", "duplicate key inside one literal", B,
      "    'BSC_fchdir': handle_fchdir,", "    'BSC_fchdir': handle_fchdir,\n    'BSC_read': handle_fchdir,", "R2"),
    N("C17", "entries reordered", B,
      "    'BSC_read': handle_read,\n    'BSC_write': handle_write,\n", "    'BSC_write': handle_write,\n    'BSC_read': handle_read,\n"),
    N("C17", "suffix via concatenation", B,
      "return f'write{no_cancel}({self.fd}, {hex(self.address)}, {self.size}), {self.result}'",
      "name = 'write' + ('_nocancel' if self.no_cancel else '')\n        return f'{name}({self.fd}, {hex(self.address)}, {self.size}), {self.result}'"),
]
