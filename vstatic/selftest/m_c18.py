from . import F, N

B = "trace_handlers/bsd.py"
MUTANTS = [
    F("C18", "new host table use in another decoder (signal names in kill)", B,
      "def handle_kill(parser, events):\n    return BscKill(events, events[0].values[0], events[0].values[1], serialize_result(events[-1]))",
      "def handle_kill(parser, events):\n    return BscKill(events, events[0].values[0], Signals(events[0].values[1]).name, serialize_result(events[-1]))", "R1"),
    F("C18", "os.strerror text in results", B,
      "import socket\n", "import socket\nimport os\n", "R1",
      more=[(B, "        err = f'errno: {error_code}'\n    success", "        err = f'errno: {error_code} {os.strerror(error_code)}'\n    success")]),
    F("C18", "host table aliased at module level", B,
      "import socket\nfrom typing import List\n", "import socket\nfrom typing import List\n\nFAMILIES = socket.AddressFamily\n", "R1"),
    F("C18", "platform probe in the formatter", "pykdebugparser.py",
      "    def _format_process(self, tid):\n", "    def _format_process(self, tid):\n        import sys\n        sep = '/' if sys.platform != 'win32' else '\\\\'\n", None),
    F("C18", "errno constants in mach decoder", "trace_handlers/mach.py",
      "import ctypes\n", "import ctypes\nimport errno\n", "R1",
      more=[("trace_handlers/mach.py", "def handle_mach_pageout(parser, events):\n    return MachPageout(events, events[0].values[0])",
             "def handle_mach_pageout(parser, events):\n    return MachPageout(events, events[0].values[0] or errno.ENOMEM)")]),
    N("C18", "annotation only", B, "def handle_kill(parser, events):", "def handle_kill(parser, events) -> 'BscKill':"),
    N("C18", "pure helper", B, "def handle_sync(parser, events):\n    return BscSync(events)",
      "def handle_sync(parser, events):\n    socket.htons(1)\n    return BscSync(events)"),
]
