from . import F, N

T = "trace_codes.py"
P = "pykdebugparser.py"
TP = "traces_parser.py"
COMP = "return {int(s[0], 16): s[1] for s in map(lambda l: l.split(), codes_text.splitlines())}"
MUTANTS = [
    N("C19", "private helper _format_kevent renamed", "pykdebugparser.py", "_format_kevent", "_render_kevent", all_occurrences=True),
    F("C19", "base 16 -> 0", T, COMP, COMP.replace("int(s[0], 16)", "int(s[0], 0)"), "R1"),
    F("C19", "base 16 -> 10", T, COMP, COMP.replace("int(s[0], 16)", "int(s[0])"), "R1"),
    F("C19", "value = last token", T, COMP, COMP.replace(": s[1] for", ": s[-1] for"), "R1"),
    F("C19", "split on tab only", T, COMP, COMP.replace("l.split()", "l.split('\\t')"), "R1"),
    F("C19", "maxsplit keeps the comment", T, COMP, COMP.replace("l.split()", "l.split(None, 1)"), "R1"),
    F("C19", "split('\\n') instead of splitlines", T, COMP, COMP.replace("codes_text.splitlines()", "codes_text.split('\\n')"), "R1"),
    F("C19", "first occurrence wins", T, COMP,
      "out = {}\n    for s in map(lambda l: l.split(), codes_text.splitlines()):\n        if int(s[0], 16) not in out:\n            out[int(s[0], 16)] = s[1]\n    return out", "R1"),
    F("C19", "lines reversed", T, COMP, COMP.replace("codes_text.splitlines()", "reversed(codes_text.splitlines())"), "R1"),
    F("C19", "default table always merged in", P,
      "        trace_codes_map = default_trace_codes() if trace_codes is None else trace_codes\n\n        # Classes",
      "        trace_codes_map = dict(default_trace_codes(), **(trace_codes or {}))\n\n        # Classes", "R2"),
    F("C19", "parser falls back to bundled table", TP,
      "        self.trace_codes = trace_codes_map\n", "        self.trace_codes = trace_codes_map or None\n", "R2"),
    F("C19", "formatted_traces drops the caller's table", P,
      "return map(lambda t: self._format_trace(t), self.traces(kdebug, trace_codes))",
      "return map(lambda t: self._format_trace(t), self.traces(kdebug))", "R2"),
    F("C19", "absent id shown as decimal", P, "            name = hex(event.eventid)\n", "            name = str(event.eventid)\n", "R3"),
    F("C19", "membership test removed in parse_event_list", TP,
      "        if events[0].eventid not in self.trace_codes:\n            return None\n        trace_name = self.trace_codes[events[0].eventid]",
      "        trace_name = self.trace_codes[events[0].eventid]", "R3"),
    F("C19", "decoder looked up under a fixed id->name map", TP,
      "        return self.handlers[trace_name](self, events)",
      "        return self.handlers.get(trace_name, self.handlers['MACH_WAIT'])(self, events)", "R3"),
    F("C19", "feed indexes without membership", TP,
      "        if event.eventid in self.trace_codes:\n            trace_name = self.trace_codes[event.eventid]\n            if trace_name in trace_handlers:",
      "        if True:\n            trace_name = self.trace_codes[event.eventid]\n            if trace_name in trace_handlers:", "R3"),
    N("C19", "explicit loop form", T, COMP,
      "table = {}\n    for line in codes_text.splitlines():\n        tokens = line.split()\n        table[int(tokens[0], 16)] = tokens[1]\n    return table"),
    N("C19", "comprehension over a generator of token lists", T, COMP,
      "return {int(t[0], 16): t[1] for t in (ln.split() for ln in codes_text.splitlines())}"),
    N("C19", "if-statement form of the default", P,
      "        trace_codes_map = default_trace_codes() if trace_codes is None else trace_codes\n        return map(",
      "        if trace_codes is None:\n            trace_codes_map = default_trace_codes()\n        else:\n            trace_codes_map = trace_codes\n        return map("),
]
