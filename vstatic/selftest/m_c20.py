from . import F, N

MA = "trace_handlers/mach.py"
DY = "trace_handlers/dyld.py"
PF = "trace_handlers/perf.py"
MUTANTS = [
    F("C20", "result taken from the START record", MA, "    rets = events[-1].values\n    result = rets[2]", "    rets = events[-1].values\n    result = args[2]", "R1"),
    F("C20", "fault type from the wrong END word", MA, "        fault_type = DbgVmFaultType(rets[3])", "        fault_type = DbgVmFaultType(rets[2] + 1)", "R1"),
    F("C20", "None guard removed", MA, "            if vm_fault_real is not None:\n                pid = vm_fault_real.pid\n                caller_prot = vm_fault_real.caller_prot",
      "            pid = vm_fault_real.pid\n            caller_prot = vm_fault_real.caller_prot", "R1"),
    F("C20", "nested records searched in the whole window incl. END", MA, "real_events = [e for e in events[1:-1] if", "real_events = [e for e in events if", "R1"),
    F("C20", "last nested real-fault record used", MA, "vm_fault_real = parser.parse_event_list(real_events)", "vm_fault_real = parser.parse_event_list(real_events[-1:])", "R1"),
    F("C20", "sort key removed", DY, "    map_a = sorted(map_a, key=lambda x: x.load_addr)\n", "", "R2"),
    F("C20", "sorted descending", DY, "map_a = sorted(map_a, key=lambda x: x.load_addr)", "map_a = sorted(map_a, key=lambda x: x.load_addr, reverse=True)", "R2"),
    F("C20", "shared cache maps dropped", DY,
      "    map_a += [handle_uuid_shared_cache_a(parser, [e]) for e in events if\n              parser.trace_codes.get(e.eventid) == 'DYLD_uuid_shared_cache_a']\n", "", "R2"),
    F("C20", "sorted by fsid", DY, "map_a = sorted(map_a, key=lambda x: x.load_addr)", "map_a = sorted(map_a, key=lambda x: x.fsid)", "R2"),
    F("C20", "thread info without the flag test", PF,
      "    if SamplerAction.SAMPLER_TH_INFO in e.sample_what:\n        sub_events =", "    if True:\n        sub_events =", "R3"),
    F("C20", "stack gated on the wrong flag", PF, "    if SamplerAction.SAMPLER_USTACK in e.sample_what:", "    if SamplerAction.SAMPLER_TH_INFO in e.sample_what:", "R3"),
    F("C20", "header selection by the data record name", PF,
      "sub_events = [ev for ev in events if parser.trace_codes.get(ev.eventid, '') == 'PERF_STK_UHdr']",
      "sub_events = [ev for ev in events if parser.trace_codes.get(ev.eventid, '') == 'PERF_STK_UData']", "R3"),
    F("C20", "stale default for frames", PF, "    cs_frames: List = None\n", "    cs_frames: List = ()\n", "R3"),
    F("C20", "the last real-fault-address code falls outside the selection", MA, "if 0x1320008 <= e.eventid <= 0x1320014]", "if 0x1320008 <= e.eventid < 0x1320014]", "R1"),
    F("C20", "selection also picks the code after the group", MA, "if 0x1320008 <= e.eventid <= 0x1320014]", "if 0x1320008 <= e.eventid <= 0x1320018]", "R1"),
    N("C20", "explicit None else-branches", PF,
      "        if sub_events:\n            e.th_info = handle_thd_data(parser, sub_events)",
      "        if sub_events:\n            e.th_info = handle_thd_data(parser, sub_events)\n        else:\n            e.th_info = None"),
    N("C20", "sorted in place", DY, "    map_a = sorted(map_a, key=lambda x: x.load_addr)\n", "    map_a = sorted(map_a, key=lambda image: image.load_addr)\n"),
    F("C20", "real-fault decoder reads the last record it is handed", MA,
      "def handle_real_fault_address(addr_type, parser, events):\n    args = events[0].values", "def handle_real_fault_address(addr_type, parser, events):\n    args = events[len(events) - 1].values", "R1"),
    N("C20", "real-fault decoder names the first record", MA,
      "def handle_real_fault_address(addr_type, parser, events):\n    args = events[0].values", "def handle_real_fault_address(addr_type, parser, events):\n    first = events[0]\n    args = first.values"),
    F("C20", "parse_event_list declines a list whose records carry different thread ids", "traces_parser.py",
      "        trace_name = self.trace_codes[events[0].eventid]\n        if trace_name not in self.handlers:\n            return None",
      "        trace_name = self.trace_codes[events[0].eventid]\n        if trace_name not in self.handlers or events[0].tid != events[-1].tid:\n            return None", "R0"),
]
