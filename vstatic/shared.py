"""Objects that are created once and handed to every instance: mutable default arguments kept by a constructor."""
from __future__ import annotations

import ast
from typing import List, NamedTuple

from .model import Repo


class SharedDefault(NamedTuple):
    module: str
    cls: str
    method: str
    param: str
    attr: str
    lineno: int


def _is_container(val) -> bool:
    return isinstance(val, (ast.List, ast.Dict, ast.Set, ast.ListComp, ast.DictComp, ast.SetComp)) or (
        isinstance(val, ast.Call) and isinstance(val.func, ast.Name) and val.func.id in
        ("list", "dict", "set", "deque", "defaultdict", "OrderedDict", "bytearray", "Counter"))


def kept_mutable_defaults(repo: Repo):
    """(findings, number of methods looked at): a parameter whose default is a mutable container (`tables={}`) and that a method
    of a class stores into `self.<attr>` as it is - every object built without that argument then holds the ONE default object.
    A copy (`dict(tables)`, `list(xs)`, `tables or {}`'s fresh alternative is still the shared one when given) is not a finding
    when the stored expression is anything but the bare parameter."""
    out: List[SharedDefault] = []
    n = 0
    for ci in repo.all_classes():
        if ci.enum_kind:
            continue
        for m in ci.methods.values():
            n += 1
            a = m.args
            pos = a.posonlyargs + a.args
            pairs = list(zip(pos[len(pos) - len(a.defaults):], a.defaults)) + [(k, d) for k, d in zip(a.kwonlyargs, a.kw_defaults) if d is not None]
            mutable = {p.arg for p, d in pairs if _is_container(d)}
            if not mutable or not pos:
                continue
            self_name = pos[0].arg
            rebound = set()
            for x in ast.walk(m):
                # a parameter that is reassigned before use (`tables = dict(tables)`) no longer names the default
                if isinstance(x, ast.Assign):
                    for t in x.targets:
                        if isinstance(t, ast.Name) and t.id in mutable and not (isinstance(x.value, ast.Name) and x.value.id == t.id):
                            rebound.add(t.id)
            for x in ast.walk(m):
                if not isinstance(x, (ast.Assign, ast.AnnAssign)):
                    continue
                val = x.value
                targets = x.targets if isinstance(x, ast.Assign) else [x.target]
                pairs2 = []
                for t in targets:
                    if isinstance(t, (ast.Tuple, ast.List)) and isinstance(val, (ast.Tuple, ast.List)) and len(t.elts) == len(val.elts):
                        pairs2 += list(zip(t.elts, val.elts))
                    else:
                        pairs2.append((t, val))
                for t, v in pairs2:
                    if isinstance(t, ast.Attribute) and isinstance(t.value, ast.Name) and t.value.id == self_name \
                            and isinstance(v, ast.Name) and v.id in mutable and v.id not in rebound:
                        out.append(SharedDefault(ci.module.name, ci.name, m.name, v.id, t.attr, x.lineno))
    return out, n
