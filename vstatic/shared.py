"""Objects that are created once and handed to every instance: mutable default arguments kept by a constructor."""
from __future__ import annotations

import ast
from typing import List, NamedTuple

from .model import Repo


class SharedDefault(NamedTuple):
    module: str
    cls: str
    method: str
    param: str
    attr: str
    lineno: int


def _is_container(val) -> bool:
    return isinstance(val, (ast.List, ast.Dict, ast.Set, ast.ListComp, ast.DictComp, ast.SetComp)) or (
        isinstance(val, ast.Call) and isinstance(val.func, ast.Name) and val.func.id in
        ("list", "dict", "set", "deque", "defaultdict", "OrderedDict", "bytearray", "Counter"))


def kept_mutable_defaults(repo: Repo):
    """(findings, number of methods looked at): a parameter whose default is a mutable container (`tables={}`) and that a method
    of a class stores into `self.<attr>` as it is - every object built without that argument then holds the ONE default object.
    A copy (`dict(tables)`, `list(xs)`, `tables or {}`'s fresh alternative is still the shared one when given) is not a finding
    when the stored expression is anything but the bare parameter."""
    out: List[SharedDefault] = []
    n = 0
    for ci in repo.all_classes():
        if ci.enum_kind:
            continue
        for m in ci.methods.values():
            n += 1
            a = m.args
            pos = a.posonlyargs + a.args
            pairs = list(zip(pos[len(pos) - len(a.defaults):], a.defaults)) + [(k, d) for k, d in zip(a.kwonlyargs, a.kw_defaults) if d is not None]
            mutable = {p.arg for p, d in pairs if _is_container(d)}
            if not mutable or not pos:
                continue
            self_name = pos[0].arg
            rebound = set()
            for x in ast.walk(m):
                # a parameter that is reassigned before use (`tables = dict(tables)`) no longer names the default
                if isinstance(x, ast.Assign):
                    for t in x.targets:
                        if isinstance(t, ast.Name) and t.id in mutable and not (isinstance(x.value, ast.Name) and x.value.id == t.id):
                            rebound.add(t.id)
            for x in ast.walk(m):
                if not isinstance(x, (ast.Assign, ast.AnnAssign)):
                    continue
                val = x.value
                targets = x.targets if isinstance(x, ast.Assign) else [x.target]
                pairs2 = []
                for t in targets:
                    if isinstance(t, (ast.Tuple, ast.List)) and isinstance(val, (ast.Tuple, ast.List)) and len(t.elts) == len(val.elts):
                        pairs2 += list(zip(t.elts, val.elts))
                    else:
                        pairs2.append((t, val))
                for t, v in pairs2:
                    if isinstance(t, ast.Attribute) and isinstance(t.value, ast.Name) and t.value.id == self_name \
                            and isinstance(v, ast.Name) and v.id in mutable and v.id not in rebound:
                        out.append(SharedDefault(ci.module.name, ci.name, m.name, v.id, t.attr, x.lineno))
    return out, n


def diagnostic_slots(repo: Repo, ci) -> set:
    """Attributes of a class that are bookkeeping nobody reads: every occurrence of `.name` in the whole package is in the class's
    __init__ or in ONE other method of it, and there never inside a returned / yielded expression or a condition.  Counters and
    statistics a method keeps for the user (`self.syscall_errors.update([name])`) are like that; what the method leaves in them
    cannot reach a result."""
    occ = {}
    for mod in repo.modules.values():
        for node in ast.walk(mod.tree):
            if isinstance(node, ast.Attribute):
                occ.setdefault(node.attr, []).append((mod, node))
    own = {}
    for mname, m in ci.methods.items():
        for node in ast.walk(m):
            if isinstance(node, ast.Attribute) and isinstance(node.value, ast.Name) and m.args.args and node.value.id == m.args.args[0].arg:
                own.setdefault(node.attr, {}).setdefault(mname, []).append(node)
    out = set()
    deps = {}
    for attr, per_method in own.items():
        users = set(per_method) - {"__init__"}
        if "__init__" not in per_method or len(users) != 1:
            continue
        n_own = sum(len(v) for v in per_method.values())
        if n_own != len(occ.get(attr, [])):
            continue            # read or written somewhere else in the package as well
        m = ci.methods[next(iter(users))]
        selfn = m.args.args[0].arg

        def is_slot(n):
            return isinstance(n, ast.Attribute) and n.attr == attr and isinstance(n.value, ast.Name) and n.value.id == selfn

        def slot_call(n):
            return isinstance(n, ast.Call) and isinstance(n.func, ast.Attribute) and is_slot(n.func.value)
        total = sum(1 for n in ast.walk(m) if is_slot(n))
        ok_n, tainted = 0, set()
        needs = set()
        for st in ast.walk(m):
            if isinstance(st, ast.Expr) and slot_call(st.value):
                ok_n += sum(1 for n in ast.walk(st) if is_slot(n))
            elif isinstance(st, ast.Expr) and isinstance(st.value, ast.Call) and isinstance(st.value.func, ast.Attribute) \
                    and isinstance(st.value.func.value, ast.Attribute) and isinstance(st.value.func.value.value, ast.Name) \
                    and st.value.func.value.value.id == selfn and any(is_slot(n) for n in ast.walk(st)):
                # used inside a bookkeeping call on ANOTHER slot of the object: fine if that one is bookkeeping too
                ok_n += sum(1 for n in ast.walk(st) if is_slot(n))
                needs.add(st.value.func.value.attr)
            elif isinstance(st, ast.AugAssign) and is_slot(st.target):
                ok_n += sum(1 for n in ast.walk(st) if is_slot(n))
            elif isinstance(st, ast.Assign) and len(st.targets) == 1 and is_slot(st.targets[0]):
                ok_n += sum(1 for n in ast.walk(st) if is_slot(n))
            elif isinstance(st, ast.Assign) and len(st.targets) == 1 and isinstance(st.targets[0], ast.Name) and slot_call(st.value):
                ok_n += sum(1 for n in ast.walk(st) if is_slot(n))
                tainted.add(st.targets[0].id)
        if ok_n != total:
            continue
        # what was read out of the slot into a local goes nowhere but into bookkeeping calls on slots of the object / logging
        leak = False
        for st in ast.walk(m):
            if isinstance(st, ast.Expr) and isinstance(st.value, ast.Call) and isinstance(st.value.func, ast.Attribute):
                recv = st.value.func.value
                if (isinstance(recv, ast.Attribute) and isinstance(recv.value, ast.Name) and recv.value.id == selfn) or \
                        (isinstance(recv, ast.Name) and recv.id in ("logger", "logging", "log", "warnings")):
                    continue
            if isinstance(st, ast.Assign) and len(st.targets) == 1 and isinstance(st.targets[0], ast.Name) and st.targets[0].id in tainted:
                continue
            if isinstance(st, (ast.stmt,)) and not isinstance(st, (ast.FunctionDef, ast.If, ast.For, ast.While, ast.With, ast.Try)):
                if any(isinstance(x, ast.Name) and x.id in tainted and isinstance(x.ctx, ast.Load) for x in ast.walk(st)):
                    leak = True
            if isinstance(st, (ast.If, ast.While)) and any(isinstance(x, ast.Name) and x.id in tainted for x in ast.walk(st.test)):
                leak = True
        if not leak:
            out.add(attr)
            deps[attr] = needs
    changed = True
    while changed:
        changed = False
        for a in list(out):
            if deps.get(a, set()) - out:
                out.discard(a)
                changed = True
    return out
