"""Facts about stream-reading loops shared by C02, C03 and C06.

A *raw-valued* term is the unmodified result of ``reader.read(n)``: the call term itself, or a loop-carried
variable all of whose contributions are that call (``buf = read(n); while buf: ...; buf = read(n)``).
"""
from __future__ import annotations

from typing import List, Optional

from . import render, sym
from .sym import T, const


def read_term(reader: T, n) -> T:
    return T("call", (T("attr", (reader, "read")), (n if isinstance(n, T) else const(n),), ()))


def raw_valued(t: T, raw: T) -> bool:
    if t == raw:
        return True
    if t.op == "widen" and t.a[2]:
        return all(raw_valued(x, raw) for x in t.a[2])
    return False


def is_any_read(t: T, reader: T) -> Optional[T]:
    """If t is raw-valued for some read(n) of this reader return that call term."""
    if t.op == "call" and t.a[0] == T("attr", (reader, "read")):
        return t
    if t.op == "widen" and t.a[2]:
        firsts = [is_any_read(x, reader) for x in t.a[2]]
        if firsts[0] is not None and all(f == firsts[0] for f in firsts):
            return firsts[0]
    return None


def empty_test(c: T, pol: bool, reader: T):
    """Does the condition (c, pol) say "the raw read result X is EMPTY"?  Returns X's read call or None."""
    atom, apol = render.norm_bool(c)
    eff = pol if apol else not pol
    r = is_any_read(atom, reader)
    if r is not None and eff is False:
        return r
    if atom.op == "cmp" and atom.a[0] == "==":
        for x, y in ((atom.a[1], atom.a[2]), (atom.a[2], atom.a[1])):
            r = is_any_read(x, reader)
            if r is not None and y == const(b"") and eff is True:
                return r
            if x.op == "call" and x.a[0] == T("builtin", ("len",)) and x.a[1] and y == const(0) and eff is True:
                r = is_any_read(x.a[1][0], reader)
                if r is not None:
                    return r
    return None


def nonempty_test(c: T, pol: bool, reader: T):
    return empty_test(c, not pol, reader)


def loop_test_conditions(rec: sym.Record, loop_ids) -> list:
    """(term, True) entries that are just the while-tests of the given enclosing loops."""
    out = []
    for lid in loop_ids:
        lr = rec.loops.get(lid)
        if lr is not None and lr.kind == "while" and lr.test is not None:
            out.append((lr.test, True))
    return out


def exits_on_empty_read(rec: sym.Record, lr, reader: T) -> List[str]:
    """Ways in which the loop is left when a read inside it (or feeding its test) returns b''."""
    ways = []
    for kind, pc, seq, lineno in lr.exits:
        if kind not in ("break", "return", "raise"):
            continue
        for c, pol in pc:
            if empty_test(c, pol, reader) is not None:
                ways.append(f"E1: `{kind}` when the read result is empty (line {lineno})")
    if lr.kind == "while" and lr.test is not None:
        tst = sym.resolve_widens(rec, lr.test)
        r = is_any_read(render.norm_bool(tst)[0], reader)
        if r is not None and render.norm_bool(tst)[1]:
            # the variable must be refreshed by a read inside the loop
            inside = [c for c in rec.calls if lr.id in c.loops and c.func == T("attr", (reader, "read"))]
            if inside:
                ways.append(f"E1: the loop test is the truthiness of the raw read result (line {lr.lineno})")
    return ways
