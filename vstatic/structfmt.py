"""Parser for ``struct`` format strings (layout only; no packing is performed)."""
from __future__ import annotations

from dataclasses import dataclass
from typing import List, Optional

STD_SIZES = {"x": 1, "c": 1, "b": 1, "B": 1, "?": 1, "h": 2, "H": 2, "i": 4, "I": 4, "l": 4, "L": 4, "q": 8, "Q": 8,
             "e": 2, "f": 4, "d": 8}
SIGNED = set("bhilq")
UNSIGNED = set("BHILQ")


@dataclass
class FmtField:
    code: str
    offset: int
    size: int
    index: Optional[int]      # index in the unpacked tuple (None for pad bytes)


@dataclass
class Layout:
    order: str                # '<', '>', '=', '!', '@'
    fields: List[FmtField]
    size: int
    native: bool


class FormatError(Exception):
    pass


def parse(fmt: str) -> Layout:
    if not isinstance(fmt, str):
        raise FormatError("format is not a string")
    order = "@"
    i = 0
    if fmt and fmt[0] in "<>=!@":
        order = fmt[0]
        i = 1
    native = order == "@"
    fields: List[FmtField] = []
    off = 0
    idx = 0
    while i < len(fmt):
        ch = fmt[i]
        if ch.isspace():
            i += 1
            continue
        count = None
        j = i
        while j < len(fmt) and fmt[j].isdigit():
            j += 1
        if j > i:
            count = int(fmt[i:j])
            i = j
            if i >= len(fmt):
                raise FormatError("count without code")
            ch = fmt[i]
        i += 1
        if ch in ("s", "p"):
            n = 1 if count is None else count
            fields.append(FmtField(ch, off, n, idx))
            idx += 1
            off += n
            continue
        if ch not in STD_SIZES:
            raise FormatError(f"unsupported format code {ch!r}")
        size = STD_SIZES[ch]
        if native and ch in "lL":
            size = 8          # LP64 native long; native mode is rejected by the rule anyway
        for _ in range(1 if count is None else count):
            if native and size > 1 and off % size:
                off += size - off % size
            if ch == "x":
                fields.append(FmtField("x", off, 1, None))
            else:
                fields.append(FmtField(ch, off, size, idx))
                idx += 1
            off += size
    return Layout(order, fields, off, native)
