"""Symbolic abstract interpreter for the Python subset used by pykdebugparser.

It evaluates a function body *abstractly*: every value is a term (class ``T``)
built from the function's parameters, constants resolved from the source, and
uninterpreted operations.  Branches are followed on both sides and joined with
``ite`` terms; loops are executed once with their carried variables widened.
Small loop-free helper functions of the analysed package are inlined.

While interpreting it records, with the path condition under which each one
happens:

* returns and yields,
* effects (attribute / item stores, mutating method calls, deletes),
* partial operations (subscript loads, attribute loads),
* calls.

No code of the analysed repository is executed: the interpreter only walks
``ast`` nodes.
"""
from __future__ import annotations

import ast
import itertools
from dataclasses import dataclass, field
from typing import Dict, List, Optional, Tuple

from . import consteval
from .model import AnalysisError, ClassInfo, ModuleInfo, Repo


# --------------------------------------------------------------------- terms
class T:
    __slots__ = ("op", "a", "_h")

    def __init__(self, op: str, a: tuple = ()):
        self.op = op
        self.a = a
        self._h = None

    def __eq__(self, other):
        return isinstance(other, T) and self.op == other.op and self.a == other.a

    def __hash__(self):
        if self._h is None:
            try:
                self._h = hash((self.op, self.a))
            except TypeError:
                self._h = hash((self.op, repr(self.a)))
        return self._h

    def __repr__(self):
        return pretty(self)


def const(v) -> T:
    return T("const", (v,))


def param(n: str) -> T:
    return T("param", (n,))


NONE = const(None)
TRUE = const(True)
FALSE = const(False)
EMPTY = const("")


def is_const(t: T) -> bool:
    return t.op == "const"


def children(t: T):
    """Direct sub-terms of a term."""
    stack = [t.a]
    while stack:
        cur = stack.pop()
        if isinstance(cur, T):
            yield cur
        elif isinstance(cur, tuple):
            stack.extend(cur)


def walk(t: T):
    """All sub-terms, pre-order (including t)."""
    stack = [t]
    seen = set()
    while stack:
        cur = stack.pop()
        if id(cur) in seen:
            continue
        seen.add(id(cur))
        yield cur
        stack.extend(children(cur))


def subst(t: T, mapping: Dict[T, T]) -> T:
    if not mapping:
        return t
    memo: Dict[int, T] = {}

    def go(x):
        if isinstance(x, T):
            if x in mapping:
                return mapping[x]
            k = id(x)
            if k in memo:
                return memo[k]
            na = go(x.a)
            r = x if na is x.a else T(x.op, na)
            memo[k] = r
            return r
        if isinstance(x, tuple):
            new = tuple(go(e) for e in x)
            if all(n is o for n, o in zip(new, x)):
                return x
            return new
        return x

    return go(t)


def pretty(t, depth=0) -> str:
    if not isinstance(t, T):
        if isinstance(t, tuple):
            return "(" + ", ".join(pretty(e, depth + 1) for e in t) + ")"
        return repr(t)
    if depth > 12:
        return "…"
    p = lambda x: pretty(x, depth + 1)
    op, a = t.op, t.a
    if op == "const":
        return repr(a[0])
    if op in ("param", "builtin", "bound"):
        return str(a[0])
    if op == "lambda" and len(a) > 1:
        return f"(lambda: {p(a[1])})"
    if op in ("global", "func", "class"):
        return a[0].replace("pykdebugparser.", "")
    if op == "enum":
        return f"{a[0].rsplit('.', 1)[-1]}.{a[1]}"
    if op == "attr":
        return f"{p(a[0])}.{a[1]}"
    if op == "sub":
        return f"{p(a[0])}[{p(a[1])}]"
    if op == "slice":
        f = lambda x: "" if x == NONE else p(x)
        return f"{p(a[0])}[{f(a[1])}:{f(a[2])}]"
    if op == "call":
        args = [p(x) for x in a[1]] + [f"{k}={p(v)}" for k, v in a[2]]
        return f"{p(a[0])}({', '.join(args)})"
    if op == "bin":
        return f"({p(a[1])} {a[0]} {p(a[2])})"
    if op == "un":
        return f"({a[0]}{p(a[1])})"
    if op == "not":
        return f"(not {p(a[0])})"
    if op == "cmp":
        return f"({p(a[1])} {a[0]} {p(a[2])})"
    if op == "bool":
        return "(" + f" {a[0]} ".join(p(x) for x in a[1]) + ")"
    if op == "ite":
        return f"({p(a[1])} if {p(a[0])} else {p(a[2])})"
    if op in ("tuple", "list", "set"):
        br = {"tuple": "()", "list": "[]", "set": "{}"}[op]
        return br[0] + ", ".join(p(x) for x in a[0]) + br[1]
    if op == "dict":
        return "{" + ", ".join(f"{p(k)}: {p(v)}" for k, v in a[0]) + "}"
    if op == "fstr":
        out = []
        for part in a[0]:
            if part[0] == "lit":
                out.append(part[1].replace("{", "{{").replace("}", "}}"))
            else:
                spec = "" if part[3] is None else ":" + (part[3].a[0] if part[3].op == "const" else p(part[3]))
                conv = "" if not part[2] else "!" + part[2]
                out.append("{" + p(part[1]) + conv + spec + "}")
        return "f'" + "".join(out) + "'"
    if op == "lambda":
        return f"<lambda#{a[0]}>"
    if op == "comp":
        gens = " ".join(f"for {p(b)} in {p(i)}" + "".join(f" if {p(c)}" for c in cs) for b, i, cs in a[2])
        return f"[{p(a[1])} {gens}]" if a[0] != "dict" else f"{{{p(a[1])} {gens}}}"
    if op == "new":
        return f"{a[0].rsplit('.', 1)[-1]}(" + ", ".join(f"{k}={p(v)}" for k, v in a[1]) + ")"
    if op == "elem":
        return f"elem({p(a[0])})"
    if op == "widen":
        return f"loopvar<{a[0]}>(" + " | ".join(p(x) for x in a[2]) + ")"
    if op == "mut":
        return f"{p(a[0])}.{a[1]}!({', '.join(p(x) for x in a[2])})"
    if op == "broke":
        return f"<loop#{a[0]} left by break>"
    if op == "unknown":
        return f"?{a[0]}"
    if op == "star":
        return f"*{p(a[0])}"
    if op == "undef":
        return "<undef>"
    return f"{op}{a!r}"


# --------------------------------------------------------------- recordings
PC = Tuple[Tuple[T, bool], ...]


@dataclass
class Effect:
    kind: str            # attr-store, sub-store, mut-call, del-sub, del-attr, del-name, global
    base: Optional[T]
    key: object          # attribute name / index term / method name
    value: Optional[T]
    args: tuple
    pc: PC
    loops: tuple
    trys: tuple
    seq: int
    func: str
    lineno: int
    col: int = 0
    aug: Optional[str] = None
    path: Optional[T] = None     # syntactic access path of the target base (no heap resolution)
    alias: Optional[T] = None    # stores only: the existing object the stored value is an alias of (None: a fresh value)


@dataclass
class POp:
    kind: str            # sub, attr
    base: T
    key: object
    pc: PC
    loops: tuple
    trys: tuple
    seq: int
    func: str
    lineno: int
    col: int
    path: Optional[T] = None


@dataclass
class CallRec:
    func: T
    args: tuple
    kwargs: tuple
    pc: PC
    loops: tuple
    trys: tuple
    seq: int
    where: str
    lineno: int
    col: int
    result: Optional[T] = None
    stmt_expr: bool = False


@dataclass
class Ret:
    kind: str            # return / yield / yield_from / raise
    value: T
    pc: PC
    loops: tuple
    seq: int
    func: str
    lineno: int


@dataclass
class LoopRec:
    id: int
    kind: str            # for / while / comp
    iter: Optional[T]
    test: Optional[T]
    func: str
    lineno: int
    exits: list = field(default_factory=list)    # (kind, pc, seq, lineno) break/continue/return inside
    body_seq: Tuple[int, int] = (0, 0)
    parent: Optional[int] = None
    target: Optional[T] = None
    term: Optional[T] = None     # the comprehension term (comp loops)
    iter_path: Optional[T] = None   # syntactic path of the iterated expression (for loops)
    carried: Dict[str, T] = field(default_factory=dict)   # loop-carried variables: name -> widened term after the loop
    break_envs: list = field(default_factory=list)        # (pc, env) at every `break` of this loop
    entry_pc: Optional[tuple] = None                      # path condition in force when the loop is entered
    continue_envs: list = field(default_factory=list)     # (pc, env) at every `continue` of this loop


@dataclass
class Record:
    returns: List[Ret] = field(default_factory=list)
    effects: List[Effect] = field(default_factory=list)
    pops: List[POp] = field(default_factory=list)
    calls: List[CallRec] = field(default_factory=list)
    loops: Dict[int, LoopRec] = field(default_factory=dict)
    notes: List[str] = field(default_factory=list)
    is_generator: bool = False

    def return_term(self) -> T:
        """All plain returns folded into one ite-chain (None if the function may fall through)."""
        rets = [r for r in self.returns if r.kind == "return"]
        if not rets:
            return NONE
        out = rets[-1].value
        for r in reversed(rets[:-1]):
            cond = pc_to_term(r.pc)
            out = r.value if cond is None else (out if r.value == out else merge_terms(cond, r.value, out))
        return out


def pc_to_term(pc: PC) -> Optional[T]:
    items = []
    for c, pol in pc:
        items.append(c if pol else T("not", (c,)))
    if not items:
        return None
    if len(items) == 1:
        return items[0]
    return T("bool", ("and", tuple(items)))


@dataclass
class State:
    env: Dict[str, T]
    heap: Dict[T, T]
    pc: PC

    def copy(self) -> "State":
        return State(dict(self.env), dict(self.heap), self.pc)


UNDEF = T("undef")

MUTATORS = {"append", "extend", "insert", "pop", "clear", "update", "setdefault", "remove", "sort", "reverse",
            "popitem", "add", "discard", "appendleft"}

BUILTINS = {"slice", "hex", "str", "bool", "int", "len", "list", "tuple", "sorted", "map", "filter", "any", "all", "range",
            "isinstance", "chr", "ord", "enumerate", "zip", "min", "max", "sum", "reversed", "print", "open", "dict",
            "set", "repr", "abs", "getattr", "setattr", "hasattr", "iter", "next", "bytes", "bytearray", "float",
            "type", "id", "round", "divmod", "frozenset", "callable", "super", "oct", "bin", "format", "vars",
            "ValueError", "KeyError", "IndexError", "TypeError", "Exception", "AttributeError", "LookupError",
            "StopIteration", "NotImplementedError", "RuntimeError", "EOFError", "OSError", "IOError"}

_BINOPS = {ast.Add: "+", ast.Sub: "-", ast.Mult: "*", ast.Div: "/", ast.FloorDiv: "//", ast.Mod: "%",
           ast.Pow: "**", ast.LShift: "<<", ast.RShift: ">>", ast.BitOr: "|", ast.BitAnd: "&", ast.BitXor: "^",
           ast.MatMult: "@"}
_CMPOPS = {ast.Eq: "==", ast.NotEq: "!=", ast.Lt: "<", ast.LtE: "<=", ast.Gt: ">", ast.GtE: ">=", ast.Is: "is",
           ast.IsNot: "is not", ast.In: "in", ast.NotIn: "not in"}
_UNOPS = {ast.USub: "-", ast.UAdd: "+", ast.Invert: "~"}

VALUES_ARITY = 4     # Kevent.values has four words (kevent.py '<QQQQ'; checked by rule C01)


def _fold_bin(op, l, r):
    import operator as o
    table = {"+": o.add, "-": o.sub, "*": o.mul, "//": o.floordiv, "%": o.mod, "<<": o.lshift, ">>": o.rshift,
             "|": o.or_, "&": o.and_, "^": o.xor, "**": o.pow, "/": o.truediv}
    if op not in table:
        return None
    try:
        v = table[op](l, r)
    except Exception:
        return None
    if isinstance(v, (int, str, bytes, float, bool, tuple)):
        if isinstance(v, (str, bytes, tuple)) and len(v) > 100000:
            return None
        return v
    return None


def _fold_cmp(op, l, r):
    try:
        if op == "==":
            return l == r
        if op == "!=":
            return l != r
        if op == "<":
            return l < r
        if op == "<=":
            return l <= r
        if op == ">":
            return l > r
        if op == ">=":
            return l >= r
        if op == "is":
            return l is r if (l is None or r is None or isinstance(l, bool) or isinstance(r, bool)) else None
        if op == "is not":
            return l is not r if (l is None or r is None or isinstance(l, bool) or isinstance(r, bool)) else None
        if op == "in":
            return l in r
        if op == "not in":
            return l not in r
    except Exception:
        return None
    return None


class Interp:
    """One interpreter per analysis run; ``run`` may be called many times."""

    def __init__(self, repo: Repo, inline_depth: int = 5):
        self.repo = repo
        self.inline_depth = inline_depth
        self.lambdas: Dict[int, tuple] = {}
        self._ids = itertools.count(1)
        self._simple_cache: Dict[int, bool] = {}
        self._memo_verdict: Dict[str, bool] = {}      # module-level table -> proved to be a pure memo (vstatic/memo.py)
        self._memo_mode: Dict[str, tuple] = {}        # while a table is being judged: ("hit", key, value) / ("miss",)

    def memo_mode(self, gname: str):
        """None: read the table as ordinary state; ("miss",): every lookup misses; ("hit", key, value): every lookup finds value."""
        if gname in self._memo_mode:
            return self._memo_mode[gname]
        if not gname.startswith("pykdebugparser."):
            return None
        if gname not in self._memo_verdict:
            self._memo_verdict[gname] = False         # plain reading while it is judged (and for anything recursive)
            from . import memo
            try:
                self._memo_verdict[gname] = memo.judge(self, gname)
            except AnalysisError:
                self._memo_verdict[gname] = False
        return ("miss",) if self._memo_verdict[gname] else None

    # ------------------------------------------------------------ public API
    def run(self, mod: ModuleInfo, fnode: ast.FunctionDef, args: Optional[Dict[str, T]] = None,
            self_cls: Optional[ClassInfo] = None, qualname: Optional[str] = None) -> Record:
        rec = Record()
        qn = qualname or (f"{self_cls.qualname}.{fnode.name}" if self_cls else f"{mod.name}.{fnode.name}")
        mod = getattr(self.repo, "fn_home", {}).get(id(fnode), mod)       # an inherited method runs in the module that defines it
        frame = _Frame(self, mod, fnode, self_cls, rec, qn, depth=0, stack=(id(fnode),))
        st = frame.bind_params(args or {}, symbolic_missing=True)
        final = frame.exec_block(fnode.body, st)
        rec.is_generator = frame.is_generator
        if final is not None and not frame.is_generator and any(r.kind == "return" and r.value != NONE for r in rec.returns):
            # a function that returns values can also run to its end: the implicit `return None` of that path
            r = Ret("return", NONE, final.pc, (), frame.seq(), qn, getattr(fnode, "end_lineno", fnode.lineno) or fnode.lineno)
            r.implicit = True
            rec.returns.append(r)
        return rec

    def fresh(self) -> int:
        return next(self._ids)

    def instance_table(self, ci: ClassInfo, attr: str):
        """[(key term, callable term)] of `self.<attr> = {K: self.method | function, ...}` assigned exactly once, in __init__,
        and never changed by the class (no second assignment, no item store, no mutator call); else None."""
        cache = self.__dict__.setdefault("_instance_tables", {})
        k = (ci.qualname, attr)
        if k in cache:
            return cache[k]
        cache[k] = None
        init = ci.methods.get("__init__")
        if init is None or ci.qualname in DISPATCH_BY_RULE:
            return None
        node = None
        for m in ci.methods.values():
            for x in ast.walk(m):
                tgt = None
                if isinstance(x, ast.Assign):
                    tgt = x.targets
                elif isinstance(x, (ast.AugAssign, ast.AnnAssign)):
                    tgt = [x.target]
                for t_ in tgt or []:
                    if isinstance(t_, ast.Attribute) and t_.attr == attr and isinstance(t_.value, ast.Name) and t_.value.id == "self":
                        if node is not None or m is not init or not isinstance(x, ast.Assign) or not isinstance(x.value, ast.Dict):
                            return None
                        node = x.value
                    if isinstance(t_, ast.Subscript) and isinstance(t_.value, ast.Attribute) and t_.value.attr == attr:
                        return None
                if isinstance(x, ast.Call) and isinstance(x.func, ast.Attribute) and x.func.attr in MUTATORS \
                        and isinstance(x.func.value, ast.Attribute) and x.func.value.attr == attr:
                    return None
                if isinstance(x, ast.Delete):
                    for t_ in x.targets:
                        if isinstance(t_, ast.Subscript) and isinstance(t_.value, ast.Attribute) and t_.value.attr == attr:
                            return None
        if node is None or not node.keys or any(kk is None for kk in node.keys):
            return None
        mod = getattr(self.repo, "fn_home", {}).get(id(init), ci.module)
        fr = _Frame(self, mod, init, ci, Record(), f"{ci.qualname}.__init__", 0, ())
        st = State({"self": param("self")}, {}, ())
        items = []
        for kk, vv in zip(node.keys, node.values):
            kt, vt = fr.eval(kk, st), fr.eval(vv, st)
            if kt.op not in ("const", "enum") or not (vt.op in ("func", "lambda") or
                                                       (vt.op == "attr" and vt.a[0] == param("self") and vt.a[1] in ci.methods)):
                return None
            items.append((kt, vt))
        cache[k] = items
        return items

    def computed_table(self, mod: ModuleInfo, name: str) -> Optional[T]:
        """`NAME = build(ROWS, ...)` at module level - a table computed once by a package function from other module-level
        tables: the dict it evaluates to (constant keys), or None.  The module must not change NAME afterwards."""
        cache = self.__dict__.setdefault("_computed_tables", {})
        k = (mod.name, name)
        if k in cache:
            return cache[k]
        cache[k] = None
        node = mod.constants.get(name)
        if isinstance(node, ast.Dict) and any(k_ is None for k_ in node.keys):
            pass                    # {'A': f, **{...}, 'B': g}: evaluated below
        elif isinstance(node, ast.DictComp):
            pass                    # {name: f(name) for name in TABLE}: evaluated below (rows of a constant table)
        else:
            if not isinstance(node, ast.Call):
                return None
            dn = self.repo.dotted(mod, node.func)
            f = self.repo.lookup(dn) if dn and dn.startswith("pykdebugparser.") else None
            if not f or f[0] != "func":
                return None
        stores = 0
        for x in ast.walk(mod.tree):
            if isinstance(x, ast.Name) and x.id == name and isinstance(x.ctx, ast.Store):
                stores += 1
            if isinstance(x, (ast.Subscript, ast.Attribute)) and isinstance(x.ctx, (ast.Store, ast.Del)) \
                    and isinstance(x.value, ast.Name) and x.value.id == name and not any(
                        isinstance(fn_, ast.FunctionDef) and any(y is x for y in ast.walk(fn_)) and fn_.decorator_list == []
                        and False for fn_ in ()):
                return None
            if isinstance(x, ast.Call) and isinstance(x.func, ast.Attribute) and x.func.attr in MUTATORS \
                    and isinstance(x.func.value, ast.Name) and x.func.value.id == name:
                return None
        if stores != 1:
            return None
        rec = Record()
        fr = _Frame(self, mod, None, None, rec, f"{mod.name}.<module>", 0, ())
        v = fr.eval(node, State({}, {}, ()))
        while v.op == "mut":
            v = v.a[0]
        if v.op == "dict" and v.a[0] and all(kk.op == "const" for kk, _ in v.a[0]) and not rec.notes:
            cache[k] = v
        return cache[k]

    def namedtuple_fields(self, dotted: str):
        """Field names of a module-level `X = namedtuple('X', [...])` (or 'a b c' / 'a, b'), else None."""
        cache = self.__dict__.setdefault("_nt_cache", {})
        if dotted not in cache:
            out = None
            found = self.repo.lookup(dotted)
            if found and found[0] == "const" and isinstance(found[2], ast.Call) and len(found[2].args) >= 2 \
                    and self.repo.dotted(found[1], found[2].func) in ("collections.namedtuple", "namedtuple"):
                v = consteval.evaluate(self.repo, found[1], found[2].args[1])
                if isinstance(v, str):
                    out = v.replace(",", " ").split()
                elif isinstance(v, (list, tuple)) and all(isinstance(x, str) for x in v):
                    out = list(v)
            cache[dotted] = out
        return cache[dotted]

    def decorators_return_function(self, mod: ModuleInfo, fnode) -> bool:
        """Do the decorators of a module-level function hand back the function itself (registration decorators do)?  Decided
        by applying them symbolically to the function: the name then still denotes the undecorated function."""
        cache = self.__dict__.setdefault("_deco_identity", {})
        k = id(fnode)
        if k not in cache:
            cache[k] = False            # (also the answer for a decorator that reaches this function again)
            try:
                fr = _Frame(self, mod, fnode, None, Record(), f"{mod.name}.<module>", 0, ())
                st = State({}, {}, ())
                me = T("func", (f"{mod.name}.{fnode.name}",))
                val = me
                for deco in reversed(fnode.decorator_list):
                    val = fr.call(fr.eval(deco, st), (val,), (), st, deco)
                cache[k] = val == me
            except Exception:
                cache[k] = False
        return cache[k]

    def is_simple(self, fnode) -> bool:
        """May the function be inlined at a call site?  No generators, no try, no global/nonlocal, and every `return`
        outside of loops (a loop is interpreted once with widened variables, so a value returned from inside it
        would carry loop-internal conditions)."""
        k = id(fnode)
        if k not in self._simple_cache:
            ok = True
            body = fnode.body if isinstance(fnode.body, list) else [fnode.body]

            def scan(stmts, in_loop):
                nonlocal ok
                for st in stmts:
                    if not ok:
                        return
                    if isinstance(st, ast.Try):
                        ifs = try_as_ifs(st)
                        if ifs is None:
                            ok = False
                            return
                        scan(ifs, in_loop)
                        continue
                    if isinstance(st, (ast.AsyncFor, ast.AsyncWith, ast.Global, ast.Nonlocal)):
                        ok = False
                        return
                    for n in ast.walk(st) if not isinstance(st, (ast.For, ast.While, ast.If, ast.With)) else []:
                        if isinstance(n, (ast.Yield, ast.YieldFrom, ast.Await)):
                            ok = False
                            return
                    if isinstance(st, ast.Return) and in_loop:
                        ok = False
                        return
                    if isinstance(st, (ast.For, ast.While)):
                        for n in ast.walk(st.iter if isinstance(st, ast.For) else st.test):
                            if isinstance(n, (ast.Yield, ast.YieldFrom, ast.Await)):
                                ok = False
                                return
                        scan(st.body, in_loop or not (isinstance(st, ast.For) and unrollable(st)))
                        scan(st.orelse, in_loop)
                    elif isinstance(st, ast.If):
                        for n in ast.walk(st.test):
                            if isinstance(n, (ast.Yield, ast.YieldFrom, ast.Await)):
                                ok = False
                                return
                        scan(st.body, in_loop)
                        scan(st.orelse, in_loop)
                    elif isinstance(st, ast.With):
                        scan(st.body, in_loop)
                    elif isinstance(st, (ast.FunctionDef, ast.ClassDef)):
                        continue
            scan(body, False)
            self._simple_cache[k] = ok
        return self._simple_cache[k]


_CONSTRUCTORS = {"slice", "list", "tuple", "dict", "set", "frozenset", "str", "int", "float", "bytes", "bytearray", "bool",
                 "hex", "sorted", "range", "len"}


def _const_choice_condition(test: "T") -> "T":
    """`(16 if c else 0)` used as a condition is `c`; `(0 if c else 16)` is `not c`."""
    if test.op == "ite" and test.a[1].op == "const" and test.a[2].op == "const":
        a, b = bool(test.a[1].a[0]), bool(test.a[2].a[0])
        if a and not b:
            return test.a[0]
        if b and not a:
            return T("not", (test.a[0],))
    return test


def _literal_seq(node) -> bool:
    if isinstance(node, ast.Constant):
        return True
    if isinstance(node, (ast.Tuple, ast.List)):
        return all(_literal_seq(e) for e in node.elts)
    return False


def _pure_path(node) -> bool:
    """A name, attribute chain, constant, or subscript chain of those: evaluating it twice changes nothing."""
    if isinstance(node, (ast.Name, ast.Constant)):
        return True
    if isinstance(node, ast.Attribute):
        return _pure_path(node.value)
    if isinstance(node, ast.Subscript) and not isinstance(node.slice, ast.Slice):
        return _pure_path(node.value) and _pure_path(node.slice)
    if isinstance(node, ast.UnaryOp) and isinstance(node.op, ast.USub) and isinstance(node.operand, ast.Constant):
        return True
    return False


def _raising_lookups(expr, kind: str):
    """The lookups of `expr` that can raise KeyError (kind 'key') / IndexError (kind 'index'), outermost last, when expr is
    nothing but such lookups over pure paths: a[b], a[b][c], (key only) a.pop(b); None for anything else."""
    if isinstance(expr, ast.Subscript) and not isinstance(expr.slice, ast.Slice) and _pure_path(expr.slice):
        if _pure_path(expr.value):
            inner = []
            base = expr.value
            # lookups hidden in the base path are part of the same expression: a[b][c] looks up a[b] first
            chain = []
            while isinstance(base, ast.Subscript):
                chain.append(base)
                base = base.value
            for sub in reversed(chain):
                inner.append((sub.value, sub.slice))
            return inner + [(expr.value, expr.slice)]
        return None
    if kind == "key" and isinstance(expr, ast.Call) and isinstance(expr.func, ast.Attribute) and expr.func.attr == "pop" \
            and len(expr.args) == 1 and not expr.keywords and _pure_path(expr.func.value) and _pure_path(expr.args[0]):
        return [(expr.func.value, expr.args[0])]
    return None


def try_as_ifs(s: ast.Try) -> Optional[list]:
    """EAFP lookups as the look-before-you-leap code they equal:

        try:                          if k in d:
            x = d[k]                      x = d[k]
        except KeyError:                  <else part>
            <handler>                 else:
        else:                             <handler>
            <else part>

    for a try body made only of assignments `name = <dict lookups over pure paths>` (several statements nest), one handler
    for exactly KeyError (IndexError: `len(seq) > i` for a constant index) without `as`, no finally."""
    if s.finalbody or len(s.handlers) != 1 or not s.body:
        return None
    h = s.handlers[0]
    if h.name is not None or h.type is None:
        return None
    names = [ast.unparse(e) for e in (h.type.elts if isinstance(h.type, ast.Tuple) else [h.type])]
    if names == ["KeyError"]:
        kind = "key"
    elif names == ["IndexError"]:
        kind = "index"
    else:
        return None
    steps = []
    for st in s.body:
        # storing into a name never raises; storing an item into a dict never raises KeyError (the value is computed first)
        if not (isinstance(st, ast.Assign) and all(
                isinstance(t, ast.Name) or (kind == "key" and isinstance(t, ast.Subscript) and not isinstance(t.slice, ast.Slice)
                                            and _pure_path(t.value) and _pure_path(t.slice)) for t in st.targets)):
            return None
        lk = _raising_lookups(st.value, kind)
        if not lk:
            return None
        tests = []
        for cont, key in lk:
            if kind == "key":
                tests.append(ast.Compare(left=key, ops=[ast.In()], comparators=[cont]))
            else:
                idx = key.value if isinstance(key, ast.Constant) else (-key.operand.value if isinstance(key, ast.UnaryOp) else None)
                if not isinstance(idx, int) or isinstance(idx, bool):
                    return None
                ln = ast.Call(func=ast.Name(id="len", ctx=ast.Load()), args=[cont], keywords=[])
                tests.append(ast.Compare(left=ln, ops=[ast.Gt() if idx >= 0 else ast.GtE()],
                                         comparators=[ast.Constant(idx if idx >= 0 else -idx)]))
        steps.append((st, tests))

    def build(i):
        if i == len(steps):
            return list(s.orelse)
        st, tests = steps[i]
        test = tests[0] if len(tests) == 1 else ast.BoolOp(op=ast.And(), values=tests)
        body = [st] + build(i + 1)
        return [ast.If(test=test, body=body, orelse=list(h.body) or [ast.Pass()])]
    out = build(0)
    for n_ in out:
        for x in ast.walk(n_):
            if not hasattr(x, "lineno"):
                ast.copy_location(x, s)
        ast.fix_missing_locations(n_)
    return out


def _table_row(node, top=True) -> bool:
    """A row of a module-level dispatch table: constants, names (functions, classes, constants), lambdas and tuples of these."""
    if isinstance(node, (ast.Constant, ast.Name, ast.Lambda)):
        return True
    if isinstance(node, ast.Attribute):
        return _table_row(node.value, False)
    if isinstance(node, (ast.Tuple, ast.List)):
        return all(_table_row(e, False) for e in node.elts)
    if isinstance(node, ast.UnaryOp) and isinstance(node.operand, ast.Constant):
        return True
    if isinstance(node, ast.Call) and not top and isinstance(node.func, (ast.Name, ast.Attribute)) and not node.keywords \
            and all(_table_row(a, False) for a in node.args):
        return True             # a converter built by a factory: `('lt', 'log_type', _enum_of(OsLogType))`
    return False


def _maybe_shared_mutable(t: "T") -> bool:
    """Can the value be a mutable object that something else also refers to?  (Only such values make `x += y` visible
    elsewhere.)  Values read from attributes, items, parameters, globals or loop elements can; numbers, strings, tuples
    and objects created in this very expression cannot."""
    if t.op in ("attr", "sub", "param", "elem", "global", "default"):
        return True
    if t.op == "ite":
        return _maybe_shared_mutable(t.a[1]) or _maybe_shared_mutable(t.a[2])
    if t.op == "widen":
        return any(_maybe_shared_mutable(x) for x in t.a[2] if not (x.op == "widen" and x.a[:2] == t.a[:2]))
    if t.op == "mut":
        return _maybe_shared_mutable(t.a[0])
    return False


def _format_to_fstr(fmt: str, args: tuple, kwargs: tuple) -> Optional["T"]:
    """'text {} {0!r:>8} {name}'.format(a, b, name=c)  as the f-string it equals; None for anything fancier (attribute /
    index lookups in a field name, nested replacement fields, starred arguments)."""
    import string
    if any(a.op == "star" for a in args) or any(k == "**" for k, _ in kwargs):
        return None
    kw = dict(kwargs)
    parts = []
    auto = 0
    try:
        for lit, field_name, spec, conv in string.Formatter().parse(fmt):
            if lit:
                parts.append(("lit", lit))
            if field_name is None:
                continue
            if spec and ("{" in spec or "}" in spec):
                return None
            if field_name == "":
                if auto is None:
                    return None
                idx, auto = auto, auto + 1
                val = args[idx] if idx < len(args) else None
            elif field_name.isdigit():
                if auto:
                    return None
                auto = None
                val = args[int(field_name)] if int(field_name) < len(args) else None
            elif field_name.isidentifier():
                val = kw.get(field_name)
            else:
                return None
            if val is None:
                return None
            if val.op == "const" and isinstance(val.a[0], str) and not conv and not spec:
                parts.append(("lit", val.a[0]))
            else:
                parts.append(("val", val, conv or "", const(spec) if spec else None))
    except (ValueError, IndexError):
        return None
    merged = []
    for p_ in parts:
        if p_[0] == "lit" and merged and merged[-1][0] == "lit":
            merged[-1] = ("lit", merged[-1][1] + p_[1])
        else:
            merged.append(p_)
    if all(p_[0] == "lit" for p_ in merged):
        return const("".join(p_[1] for p_ in merged))
    return T("fstr", (tuple(merged),))


_PCT = None


def _fstr_of(parts) -> "T":
    merged = []
    for p_ in parts:
        if p_[0] == "lit" and merged and merged[-1][0] == "lit":
            merged[-1] = ("lit", merged[-1][1] + p_[1])
        elif p_[0] == "lit" and not p_[1]:
            continue
        else:
            merged.append(p_)
    if all(p_[0] == "lit" for p_ in merged):
        return const("".join(p_[1] for p_ in merged))
    return T("fstr", (tuple(merged),))


def _fstr_value(val: "T", conv: str, spec: str):
    if val.op == "const" and isinstance(val.a[0], str) and not spec and conv in ("", "s"):
        return ("lit", val.a[0])
    if val.op == "const" and isinstance(val.a[0], (int, str)) and not isinstance(val.a[0], bool) and conv in ("", "s"):
        try:
            return ("lit", format(val.a[0] if not conv else str(val.a[0]), spec))
        except (ValueError, TypeError):
            pass
    return ("val", val, conv, const(spec) if spec else None)


def _percent_to_fstr(fmt: str, arg: "T") -> Optional["T"]:
    """'text %s %-12s %#x %05d' % (a, b, c, d)  as the f-string it equals (f'text {a} {b!s:<12} {c:#x} {d:05d}');
    None for anything fancier (%(name)s, `*` widths, %c)."""
    global _PCT
    import re
    if _PCT is None:
        _PCT = re.compile(r"%(?:\((\w+)\))?([#0\- +]*)(\*|\d+)?(?:\.(\*|\d+))?[hlL]?([a-zA-Z%])")
    specs = list(_PCT.finditer(fmt))
    n_vals = sum(1 for m in specs if m.group(5) != "%")
    if "%" in _PCT.sub("", fmt):
        return None
    if arg.op == "tuple":
        if any(a.op == "star" for a in arg.a[0]):
            return None
        vals = list(arg.a[0])
    elif n_vals == 1 and arg.op not in ("dict", "widen", "unknown", "list"):
        vals = [arg]
    else:
        return None
    if len(vals) != n_vals:
        return None
    parts, pos, vi = [], 0, 0
    for m in specs:
        parts.append(("lit", fmt[pos:m.start()]))
        pos = m.end()
        key, flags, width, prec, kind = m.groups()
        if kind == "%":
            if key or flags or width or prec:
                return None
            parts.append(("lit", "%"))
            continue
        if key or width == "*" or prec == "*":
            return None
        val = vals[vi]
        vi += 1
        left = "-" in flags
        if kind in ("s", "r", "a"):
            if set(flags) - {"-"}:
                return None
            spec = ""
            if width:
                spec = ("<" if left else ">") + width
            if prec:
                spec += "." + prec
            # '%s' shows str(x); '{}' shows format(x, ''), the same text for every type without a __format__ of its own
            conv = kind if (kind != "s" or spec) else ""
            parts.append(_fstr_value(val, conv, spec))
        elif kind in ("d", "i", "u", "x", "X", "o", "e", "E", "f", "F", "g", "G"):
            if kind in ("i", "u"):
                kind = "d"
            spec = ""
            if left and width:
                spec += "<"
            for sg in ("+", " "):
                if sg in flags:
                    spec += sg
                    break
            if "#" in flags:
                spec += "#"
            if "0" in flags and not left and width:
                spec += "0"
            spec += (width or "")
            if prec:
                if kind in ("d", "x", "X", "o"):
                    return None
                spec += "." + prec
            if kind == "d" and not spec:
                parts.append(_fstr_value(val, "", "d"))
            else:
                parts.append(_fstr_value(val, "", spec + kind))
        else:
            return None
    parts.append(("lit", fmt[pos:]))
    return _fstr_of(parts)


def _fresh_local(t: "T") -> bool:
    """A container created in this function (a literal, a comprehension, or such a container after local updates /
    across loop iterations) - as opposed to one reached through a parameter, an attribute or an item."""
    if t.op in ("dict", "list", "set", "comp"):
        return True
    if t.op == "mut":
        return _fresh_local(t.a[0])
    if t.op == "ite":
        return _fresh_local(t.a[1]) and _fresh_local(t.a[2])
    if t.op == "widen":
        return all(_fresh_local(x) for x in t.a[2] if not (x.op == "widen" and x.a[:2] == t.a[:2]))
    return False


def _reached_object(t: "T") -> bool:
    """An object reached through a parameter, an attribute or an item (possibly one of several, chosen by a condition) -
    as opposed to a container this function created."""
    if t.op in ("param", "attr", "sub", "elem"):
        return True
    if t.op == "widen":
        return not _fresh_local(t)
    if t.op == "ite":
        return _reached_object(t.a[1]) or _reached_object(t.a[2])
    return False


def _never_none(t: "T", depth: int = 0) -> bool:
    """A container value whatever path built it: a literal, a mutated literal, a conditional / loop-carried value whose every
    alternative is one."""
    if depth > 12:
        return False
    if t.op in ("list", "dict", "set", "tuple", "comp", "fstr", "new"):
        return True
    if t.op == "mut":
        return _never_none(t.a[0], depth + 1)
    if t.op == "ite":
        return _never_none(t.a[1], depth + 1) and _never_none(t.a[2], depth + 1)
    if t.op == "widen" and t.a[2]:
        return all((c.op == "widen" and c.a[:2] == t.a[:2]) or _never_none(c, depth + 1) for c in t.a[2])
    if t.op == "bin" and t.a[0] == "+":
        return _never_none(t.a[1], depth + 1) or _never_none(t.a[2], depth + 1)
    return False


def _container_kind(t: "T", depth: int = 0):
    """'list' / 'dict' / ... when every alternative of the value is a container of that kind, else None."""
    if depth > 12:
        return None
    if t.op in ("list", "dict", "set", "tuple"):
        return t.op
    if t.op == "comp":
        return {"list": "list", "set": "set", "dict": "dict"}.get(t.a[0])
    if t.op == "mut":
        return _container_kind(t.a[0], depth + 1)
    if t.op == "ite":
        a, b = _container_kind(t.a[1], depth + 1), _container_kind(t.a[2], depth + 1)
        return a if a == b else None
    if t.op == "widen" and t.a[2]:
        ks = {_container_kind(c, depth + 1) for c in t.a[2] if not (c.op == "widen" and c.a[:2] == t.a[:2])}
        return ks.pop() if len(ks) == 1 else None
    if t.op == "bin" and t.a[0] == "+":
        a, b = _container_kind(t.a[1], depth + 1), _container_kind(t.a[2], depth + 1)
        return a if a == b or b is None else (b if a is None else None)
    return None


def _is_record_word(t: "T") -> bool:
    """events[i].values[k] / event.values[k] with a constant k"""
    return t.op == "sub" and t.a[0].op == "attr" and t.a[0].a[1] == "values" and t.a[1].op == "const" \
        and isinstance(t.a[1].a[0], int) and t.a[0].a[0].op in ("sub", "elem", "param", "bound")


def _const_tree(t: "T") -> bool:
    if t.op in ("const", "class", "func", "builtin"):  # (enum members are not: loops over members are judged as loops, C11)
        return True
    if t.op in ("tuple", "list"):
        return all(_const_tree(x) for x in t.a[0])
    return False


def unrollable(node: ast.For) -> bool:
    """`for x in (<literal>, <literal>, ...)` with a body that has no break / continue / return / yield / nested loop:
    such a loop is straight-line code repeated for each literal item."""
    if not isinstance(node.iter, (ast.Tuple, ast.List)) or not node.iter.elts or len(node.iter.elts) > 64 \
            or not all(_literal_seq(e) for e in node.iter.elts) or node.orelse:
        return False
    return _unrollable_body(node)


def _subst_names(node, defs: dict):
    """A copy of the AST with every load of a name in defs replaced by (a copy of) its defining expression."""
    import copy

    class _S(ast.NodeTransformer):
        def visit_Name(self, n):
            if isinstance(n.ctx, ast.Load) and n.id in defs:
                return ast.copy_location(copy.deepcopy(defs[n.id]), n)
            return n
    return ast.fix_missing_locations(_S().visit(copy.deepcopy(node)))


def _helper_row(mod, node) -> bool:
    """`_Row('a', 'b', convert, flag=True)`: a constructor call of a plain class of the same module over constants and names."""
    return isinstance(node, ast.Call) and isinstance(node.func, ast.Name) and node.func.id in getattr(mod, "classes", {}) \
        and not mod.classes[node.func.id].enum_kind \
        and all(_table_row(a, False) and not isinstance(a, ast.Starred) for a in node.args) \
        and all(k.arg is not None and _table_row(k.value, False) for k in node.keywords)


def _without_continue(node: ast.For):
    """The loop with every top-level `if c: continue` of its body replaced by `if not c: <rest of the body>`; None when the
    body uses `continue` in any other position."""
    def conv(body):
        out = []
        for i, st in enumerate(body):
            if isinstance(st, ast.If) and not st.orelse and len(st.body) == 1 and isinstance(st.body[0], ast.Continue):
                rest = conv(body[i + 1:])
                if rest is None:
                    return None
                if rest:
                    neg = ast.copy_location(ast.UnaryOp(op=ast.Not(), operand=st.test), st.test)
                    out.append(ast.copy_location(ast.If(test=neg, body=rest, orelse=[]), st))
                return out
            if any(isinstance(x, ast.Continue) for x in ast.walk(st)):
                return None
            out.append(st)
        return out
    if not any(isinstance(x, ast.Continue) for b in node.body for x in ast.walk(b)):
        return None
    body = conv(node.body)
    if not body:
        return None
    import copy
    new = copy.copy(node)
    new.body = body
    return new


def _unrollable_body(node: ast.For, small_table: bool = False) -> bool:
    # a short table written in the loop header itself (or a short module-level table of rows) may drive inner loops: each row
    # gets its own copy of them
    rows_in_place = small_table or (isinstance(node.iter, ast.Tuple) and 0 < len(node.iter.elts) <= 8
                                    and all(_table_row(e) for e in node.iter.elts))
    for st in node.body:
        for n in ast.walk(st):
            if isinstance(n, ast.Try) and try_as_ifs(n) is not None:
                continue            # an EAFP lookup: interpreted as the conditional it equals
            if rows_in_place and isinstance(n, ast.For):
                continue
            if isinstance(n, (ast.Break, ast.Continue, ast.Return, ast.Yield, ast.YieldFrom, ast.For, ast.While, ast.Try,
                              ast.With, ast.FunctionDef, ast.Lambda)):
                return False
    return True


# The package's four long-lived parser objects: their construction `Cls(args)` stays a call term (the rules recognise the
# pipelines built over them by that shape, and their methods are analysed one by one with a symbolic `self`).  Every other
# plain class is a helper whose objects are followed through __init__ and method calls.
API_CLASSES = frozenset({
    "pykdebugparser.kd_buf_parser.KdBufParser", "pykdebugparser.traces_parser.TracesParser",
    "pykdebugparser.callstacks_parser.CallstacksParser", "pykdebugparser.pykdebugparser.PyKdebugParser",
})


# Classes whose dispatch tables are judged as tables by the rules themselves (C04 reads qualifiers_actions row by row)
DISPATCH_BY_RULE = frozenset({"pykdebugparser.traces_parser.TracesParser"})


class _Terminated(Exception):
    pass


class _Frame:
    def __init__(self, interp: Interp, mod: ModuleInfo, fnode, self_cls, rec: Record, qualname: str, depth: int,
                 stack: tuple, base_pc: PC = (), base_loops: tuple = (), base_trys: tuple = ()):
        self.I = interp
        self.repo = interp.repo
        self.mod = mod
        self.fnode = fnode
        self.self_cls = self_cls
        self.rec = rec
        self.qualname = qualname
        self.depth = depth
        self.stack = stack
        self.loops: tuple = base_loops
        self.trys: tuple = base_trys
        self.base_pc = base_pc
        self.is_generator = False
        self.local_returns: List[Tuple[PC, T]] = []
        self.exit_states: List[Tuple[PC, dict]] = []
        self._seq = rec  # shared counter lives on record
        if not hasattr(rec, "_counter"):
            rec._counter = itertools.count(1)

    def seq(self) -> int:
        return next(self.rec._counter)

    # ------------------------------------------------------------- parameters
    def bind_params(self, args: Dict[str, T], symbolic_missing: bool, positional: tuple = (), kwargs: tuple = ()) -> State:
        env: Dict[str, T] = {}
        a = self.fnode.args
        params = [p.arg for p in a.posonlyargs + a.args]
        defaults = [None] * (len(params) - len(a.defaults)) + list(a.defaults)
        pos = list(positional)
        kw = dict(kwargs)
        for name, dflt in zip(params, defaults):
            if name in args:
                env[name] = args[name]
            elif pos:
                env[name] = pos.pop(0)
            elif name in kw:
                env[name] = kw.pop(name)
            elif dflt is not None and not symbolic_missing:
                env[name] = self._eval_default(dflt)
            elif dflt is not None and symbolic_missing:
                env[name] = param(name)
                if isinstance(dflt, (ast.Dict, ast.List, ast.Set)):
                    # a mutable default is one object shared by every call
                    env[name] = T("default", (name, self._eval_default(dflt)))
            else:
                env[name] = param(name)
        if a.vararg:
            # an inlined call that passes no extra positional argument binds the empty tuple
            env[a.vararg.arg] = T("tuple", (tuple(pos),)) if (pos or not symbolic_missing) else param("*" + a.vararg.arg)
        for p, dflt in zip(a.kwonlyargs, a.kw_defaults):
            if p.arg in args:
                env[p.arg] = args[p.arg]
            elif p.arg in kw:
                env[p.arg] = kw.pop(p.arg)
            elif dflt is not None and not symbolic_missing:
                env[p.arg] = self._eval_default(dflt)
            else:
                env[p.arg] = param(p.arg)
        if a.kwarg:
            if not symbolic_missing and "**" not in kw:
                # an inlined call: the keyword arguments nobody claimed, in call order
                env[a.kwarg.arg] = T("dict", (tuple((const(k), v) for k, v in kw.items()),))
            else:
                env[a.kwarg.arg] = param("**" + a.kwarg.arg)
        return State(env, {}, self.base_pc)

    def _eval_default(self, node) -> T:
        st = State({}, {}, ())
        return self.eval(node, st)

    # -------------------------------------------------------------- statements
    def exec_block(self, stmts, st: Optional[State]) -> Optional[State]:
        for s in stmts:
            if st is None:
                return None
            st = self.exec_stmt(s, st)
        return st

    def exec_stmt(self, s, st: State) -> Optional[State]:
        m = getattr(self, "s_" + type(s).__name__, None)
        if m is None:
            self.rec.notes.append(f"{self.qualname}:{getattr(s, 'lineno', 0)}: unsupported statement {type(s).__name__}")
            return st
        return m(s, st)

    def s_Pass(self, s, st):
        return st

    def s_Expr(self, s, st):
        if isinstance(s.value, ast.YieldFrom):
            loop = self._yield_from_loop(s.value, st)
            if loop is not None:
                self.is_generator = True
                return self.exec_block(loop, st)
        before = len(self.rec.calls)
        self.eval(s.value, st)
        if isinstance(s.value, ast.Call) and len(self.rec.calls) > before:
            # mark the outermost call of an expression statement
            for c in reversed(self.rec.calls[before:]):
                if c.lineno == s.value.lineno and c.col == s.value.col_offset:
                    c.stmt_expr = True
                    break
        return st

    def s_Assign(self, s, st):
        v = self.eval(s.value, st)
        # the stored object is "shared" when the right-hand side names an existing object (an alias) or when one
        # statement stores it into several targets (`a = b = {}`)
        self._store_alias = self.path_of(s.value, st) if isinstance(s.value, (ast.Name, ast.Attribute, ast.Subscript)) \
            else (T("same-statement", (s.lineno,)) if len(s.targets) > 1 else None)
        try:
            for tgt in s.targets:
                self.bind(tgt, v, st, s)
        finally:
            self._store_alias = None
        self._alias_locals(s, st)
        return st

    def _alias_locals(self, s, st) -> None:
        """A fresh local container that this statement also stores under an object path (`a = self.x = {}`, `self.x = a`,
        `self.x = {'k': a}`) is from here on the object found at that path: later uses of the local are uses of the path."""
        paths = [t for t in s.targets if isinstance(t, (ast.Attribute, ast.Subscript))]
        if len(paths) != 1 or self.loops:
            return
        root = paths[0]
        while isinstance(root, (ast.Attribute, ast.Subscript)):
            root = root.value
        if not (isinstance(root, ast.Name) and root.id in st.env and st.env[root.id].op == "param"):
            return
        tgt = _as_load(paths[0])
        pairs = []
        v = s.value
        names = [t.id for t in s.targets if isinstance(t, ast.Name)]
        if names and isinstance(v, (ast.List, ast.Dict, ast.Set)):
            pairs = [(nm, tgt) for nm in names]
        elif isinstance(v, ast.Name) and not names:
            pairs = [(v.id, tgt)]
        elif isinstance(v, ast.Dict) and not names:
            for k, x in zip(v.keys, v.values):
                if isinstance(k, ast.Constant) and isinstance(x, ast.Name):
                    sub = ast.Subscript(value=tgt, slice=k, ctx=ast.Load())
                    ast.copy_location(sub, s)
                    pairs.append((x.id, sub))
        for nm, expr in pairs:
            cur = st.env.get(nm)
            if cur is None or cur.op not in ("list", "dict", "set"):
                continue
            st.env[nm] = T("alias", (self.path_of(expr, st),))

    def s_AnnAssign(self, s, st):
        if s.value is not None:
            self.bind(s.target, self.eval(s.value, st), st, s)
        return st

    def s_AugAssign(self, s, st):
        opname = _BINOPS.get(type(s.op), "?")
        cur = self.eval(_as_load(s.target), st)
        val = self.eval(s.value, st)
        new = self.binop(opname, cur, val)
        if isinstance(s.target, ast.Name) and opname in ("+", "*", "|", "&", "-", "^") and _maybe_shared_mutable(cur):
            # `x += y` on a name bound to a list / set / dict updates that object IN PLACE (x.__iadd__(y)): every other
            # reference to it - the attribute or argument it was read from - sees the change
            self.effect("mut-call", cur, "__iadd__", val, (val,), st, s, path=cur)
        self.bind(s.target, new, st, s, aug=opname, aug_val=val)
        return st

    def s_Return(self, s, st):
        v = self.eval(s.value, st) if s.value is not None else NONE
        if self.depth == 0:
            self.rec.returns.append(Ret("return", v, st.pc, self.loops, self.seq(), self.qualname, s.lineno))
        self.local_returns.append((st.pc, v))
        self.exit_states.append((st.pc, dict(st.env)))
        if self.depth == 0 or getattr(self, "expanded_generator", False):
            # (in a generator that another one delegates to, `return` ends the delegated part: it leaves its loops)
            self._loop_exit("return", st, s)
        return None

    def s_Raise(self, s, st):
        v = self.eval(s.exc, st) if s.exc is not None else NONE
        self.rec.returns.append(Ret("raise", v, st.pc, self.loops, self.seq(), self.qualname, s.lineno))
        self._loop_exit("raise", st, s)
        return None

    def s_Break(self, s, st):
        self._loop_exit("break", st, s)
        return None

    def s_Continue(self, s, st):
        self._loop_exit("continue", st, s)
        return None

    def _loop_exit(self, kind, st, s):
        if self.loops:
            lr = self.rec.loops.get(self.loops[-1])
            if lr is not None:
                lr.exits.append((kind, st.pc, self.seq(), s.lineno))
                if kind == "break":
                    lr.break_envs.append((st.pc, dict(st.env)))
                elif kind == "continue":
                    lr.continue_envs.append((st.pc, dict(st.env)))

    def s_Delete(self, s, st):
        for tgt in s.targets:
            if isinstance(tgt, ast.Subscript):
                base = self.eval(tgt.value, st)
                key = self.eval_index(tgt.slice, st)
                self.effect("del-sub", base, key, None, (), st, tgt, path=self.path_of(tgt.value, st))
            elif isinstance(tgt, ast.Attribute):
                base = self.eval(tgt.value, st)
                self.effect("del-attr", base, tgt.attr, None, (), st, tgt)
            elif isinstance(tgt, ast.Name):
                st.env.pop(tgt.id, None)
        return st

    def s_Global(self, s, st):
        for n in s.names:
            self.effect("global", None, n, None, (), st, s)
        return st

    s_Nonlocal = s_Global

    def s_Assert(self, s, st):
        self.eval(s.test, st)
        return st

    def s_Import(self, s, st):
        # a function-level import binds the same objects a module-level one would
        for al in s.names:
            local = al.asname or al.name.split(".")[0]
            dotted = al.name if al.asname else al.name.split(".")[0]
            st.env[local] = self._imported(dotted)
        return st

    def s_ImportFrom(self, s, st):
        base = s.module or ""
        if s.level:
            parts = self.mod.name.split(".")
            parts = parts[: len(parts) - s.level]
            base = ".".join(parts + ([s.module] if s.module else []))
        for al in s.names:
            if al.name == "*":
                self.rec.notes.append(f"{self.qualname}:{s.lineno}: unsupported statement import *")
                continue
            st.env[al.asname or al.name] = self._imported(f"{base}.{al.name}")
        return st

    def _imported(self, dotted: str) -> T:
        found = self.repo.lookup(dotted)
        if found:
            kind, fmod, obj = found
            if kind == "func":
                return T("func", (f"{fmod.name}.{obj.name}",))
            if kind == "class":
                return T("class", (obj.qualname,))
            v = consteval.evaluate(self.repo, fmod, obj)
            if v is not consteval.UNKNOWN and isinstance(v, (int, str, bytes, float, bool, type(None))):
                return const(v)
            return T("global", (f"{fmod.name}.{dotted.rpartition('.')[2]}",))
        return T("global", (dotted,))

    def s_FunctionDef(self, s, st):
        key = self.I.fresh()
        self.I.lambdas[key] = (s, dict(st.env), self.mod, self.self_cls, "def")
        st.env[s.name] = T("lambda", (key,))
        a0 = s.args
        if not a0.defaults and not a0.kwonlyargs and not a0.vararg and not a0.kwarg and not s.decorator_list \
                and self.I.is_simple(s) and self.depth < self.I.inline_depth and id(s) not in self.stack:
            # a small local function is a named lambda: its value is its body over its bound parameters
            bound = tuple(T("bound", (p_.arg, key)) for p_ in a0.posonlyargs + a0.args)
            body = self.apply_lambda(st.env[s.name], bound, (), st)
            if body is not None:
                st.env[s.name] = T("lambda", (key, body))
                return st
        # interpret the nested function's body once with symbolic parameters so that its effects, partial
        # operations and calls are part of the record (it may be called later, any number of times)
        if self.depth < self.I.inline_depth and id(s) not in self.stack:
            fr = _Frame(self.I, self.mod, s, self.self_cls, self.rec, f"{self.qualname}.<locals>.{s.name}", self.depth + 1,
                        self.stack + (id(s),), base_pc=st.pc, base_loops=self.loops, base_trys=self.trys)
            inner = fr.bind_params({}, symbolic_missing=True)
            merged = dict(st.env)
            merged.update(inner.env)
            inner.env = merged
            # defaults are evaluated once, at definition: bind them so that mutations of a default are visible
            a = s.args
            params = [p_.arg for p_ in a.posonlyargs + a.args]
            for name, d in zip(params[len(params) - len(a.defaults):], a.defaults):
                dv = self.eval(d, st)
                if dv.op in ("dict", "list", "set"):
                    inner.env[name] = T("default", (name, dv))
            saved_returns = len(self.rec.returns)
            fr.exec_block(s.body, inner)
            del self.rec.returns[saved_returns:]
        return st

    def s_ClassDef(self, s, st):
        st.env[s.name] = T("unknown", (f"localclass:{s.name}",))
        return st

    def s_If(self, s, st):
        test = _const_choice_condition(self.eval(s.test, st))
        tv = truth(test)
        if tv is True:
            return self.exec_block(s.body, st)
        if tv is False:
            return self.exec_block(s.orelse, st)
        base_pc = st.pc
        test, holds_when, narrowed = self._narrow_membership(test)
        sa = st.copy()
        sa.pc = base_pc + ((test, True),)
        sb = st.copy()
        sb.pc = base_pc + ((test, False),)
        if narrowed is not None:
            g_term, path = narrowed
            side = sa if holds_when else sb
            for nme, val in list(side.env.items()):
                if val == g_term:
                    side.env[nme] = T("alias", (path,))
        # a variable that was chosen by this very condition (`size = 16 if opening else 0` ... `if opening:`) has the chosen
        # value on each side
        for nme, val in list(st.env.items()):
            if val.op == "ite" and val.a[0] == test:
                sa.env[nme], sb.env[nme] = val.a[1], val.a[2]
        ra = self.exec_block(s.body, sa)
        rb = self.exec_block(s.orelse, sb)
        if ra is None and rb is None:
            return None
        if ra is None:
            return rb            # keeps (test, False) in its pc
        if rb is None:
            return ra
        return merge(ra, rb, test, base_pc)

    def _narrow_membership(self, test: T):
        """`x in d.get(k, {})` (the default an empty literal) says two things: k is in d, and x is in d[k].  Returns the test
        spelled that way, the polarity of the test under which both hold, and (the .get term, the path d[k]) - on that side
        a local holding the .get result IS d[k]."""
        neg_ = False
        c = test
        while c.op == "not":
            c, neg_ = c.a[0], not neg_
        if c.op == "cmp" and c.a[0] in ("in", "not in"):
            g = c.a[2]
            if g.op == "call" and g.a[0].op == "attr" and g.a[0].a[1] == "get" and len(g.a[1]) == 2 and not g.a[2] \
                    and g.a[1][1].op in ("dict", "list", "tuple", "set") and not g.a[1][1].a[0]:
                d, k = g.a[0].a[0], g.a[1][0]
                path = T("sub", (d, k))
                both = T("bool", ("and", (T("cmp", ("in", k, d)), T("cmp", ("in", c.a[1], path)))))
                holds = c.a[0] == "in"
                new = both if holds else T("not", (both,))
                if neg_:
                    new, holds = T("not", (new,)), not holds
                return new, holds, (g, path)
        return test, None, None

    def s_Match(self, s, st):
        """`match` is interpreted as the if/elif chain it abbreviates.  Supported patterns: `Cls()` (isinstance), literal and
        dotted-name values, `None/True/False`, `_`, capture names, `p as x`, `p1 | p2`; anything else is reported as an
        unsupported statement (the function's record gets a note and the rules that need it fail closed)."""
        subject = s.subject
        pre = []
        if not isinstance(subject, ast.Name):
            tmp = ast.Name(id="__match_subject__", ctx=ast.Store())
            pre.append(ast.copy_location(ast.Assign(targets=[tmp], value=subject), s))
            subject = ast.Name(id="__match_subject__", ctx=ast.Load())

        def load():
            return ast.copy_location(ast.Name(id=subject.id, ctx=ast.Load()), s)

        def pat(p):
            """(test expression or None for 'always', [bindings]) or raise ValueError."""
            if isinstance(p, ast.MatchClass) and not p.patterns and not p.kwd_patterns:
                return ast.Call(func=ast.Name(id="isinstance", ctx=ast.Load()), args=[load(), p.cls], keywords=[]), []
            if isinstance(p, ast.MatchValue):
                return ast.Compare(left=load(), ops=[ast.Eq()], comparators=[p.value]), []
            if isinstance(p, ast.MatchSingleton):
                return ast.Compare(left=load(), ops=[ast.Is()], comparators=[ast.Constant(value=p.value)]), []
            if isinstance(p, ast.MatchAs):
                if p.pattern is None:
                    return None, ([p.name] if p.name else [])
                t, b = pat(p.pattern)
                return t, b + ([p.name] if p.name else [])
            if isinstance(p, ast.MatchOr):
                tests = []
                for q in p.patterns:
                    t, b = pat(q)
                    if b:
                        raise ValueError("bindings in an or-pattern")
                    if t is None:
                        return None, []
                    tests.append(t)
                return ast.BoolOp(op=ast.Or(), values=tests), []
            raise ValueError(type(p).__name__)

        chain: list = []
        try:
            for case in reversed(s.cases):
                t, binds = pat(case.pattern)
                body = [ast.Assign(targets=[ast.Name(id=b, ctx=ast.Store())], value=load()) for b in binds] + list(case.body)
                if case.guard is not None:
                    if binds:
                        raise ValueError("guard over captured names")
                    t = case.guard if t is None else ast.BoolOp(op=ast.And(), values=[t, case.guard])
                if t is None:
                    chain = body
                else:
                    chain = [ast.If(test=t, body=body, orelse=chain)]
        except ValueError as ex:
            self.rec.notes.append(f"{self.qualname}:{s.lineno}: unsupported statement Match ({ex})")
            return st
        for node in pre + chain:
            for sub in ast.walk(node):
                if not hasattr(sub, "lineno"):
                    ast.copy_location(sub, s)
            ast.fix_missing_locations(node)
        return self.exec_block(pre + chain, st)

    def _assigned_names(self, stmts, env=None) -> List[str]:
        """Names whose value may change in the statements: rebinding, or in-place mutation of a *local* object.
        Mutating an object reached through a parameter does not change what the parameter name denotes."""
        names = []
        indirect = []
        for st_ in stmts:
            for n in ast.walk(st_):
                if isinstance(n, ast.Name) and isinstance(n.ctx, ast.Store):
                    names.append(n.id)
                elif isinstance(n, ast.Call) and isinstance(n.func, ast.Attribute) and n.func.attr in MUTATORS \
                        and isinstance(n.func.value, ast.Name):
                    indirect.append(n.func.value.id)
                elif isinstance(n, ast.Call) and isinstance(n.func, ast.Attribute) and n.func.attr in MUTATORS \
                        and isinstance(n.func.value, (ast.Subscript, ast.Attribute)):
                    root = n.func.value
                    while isinstance(root, (ast.Attribute, ast.Subscript)):
                        root = root.value
                    if isinstance(root, ast.Name):
                        indirect.append(root.id)          # d[k].append(x): d changes through its item
                elif isinstance(n, (ast.Attribute, ast.Subscript)) and isinstance(n.ctx, ast.Store):
                    root = n
                    while isinstance(root, (ast.Attribute, ast.Subscript)):
                        root = root.value
                    if isinstance(root, ast.Name):
                        indirect.append(root.id)
        for n in indirect:
            if env is not None and n in env:
                w = env[n]
                while w.op == "mut":
                    w = w.a[0]
                if w.op in ("param", "attr", "sub", "elem", "global", "alias") or (w.op == "ite" and _reached_object(w)):
                    continue
            names.append(n)
        if env is not None:
            # a local object of a package class whose methods are called (or that is handed to a call) may change too
            objs = {k for k, v in env.items() if v.op == "new"}
            if objs:
                for st_ in stmts:
                    for n in ast.walk(st_):
                        if isinstance(n, ast.Call):
                            if isinstance(n.func, ast.Attribute) and isinstance(n.func.value, ast.Name) and n.func.value.id in objs:
                                names.append(n.func.value.id)
                            for a_ in list(n.args) + [k.value for k in n.keywords]:
                                if isinstance(a_, ast.Name) and a_.id in objs:
                                    names.append(a_.id)
        seen = []
        for n in names:
            if n not in seen:
                seen.append(n)
        return seen

    def _run_loop(self, kind, s, st, iter_term, body, orelse, target=None, test_node=None, elem_map=None):
        lid = self.I.fresh()
        lr = LoopRec(lid, kind, iter_term, None, self.qualname, s.lineno, parent=self.loops[-1] if self.loops else None)
        lr.iter_path = getattr(self, "_pending_iter_path", None) if kind == "for" else None
        lr.entry_pc = tuple(st.pc)
        self._pending_iter_path = None
        self.rec.loops[lid] = lr
        carried = self._assigned_names(body, st.env)
        init = {}
        heap_init = dict(st.heap)
        # fields of a carried helper object that every iteration leaves as they were (`reader = Reader(header=1)` built anew
        # with the same arguments at the end of each round): found by a trial run of the loop whose records are discarded
        frozen = {}
        if not getattr(self, "_loop_trial", False) and any(n in st.env and st.env[n].op == "new" for n in carried):
            snap = (len(self.rec.pops), len(self.rec.calls), len(self.rec.effects), len(self.rec.returns), set(self.rec.loops),
                    len(self.rec.notes), getattr(self, "_pending_iter_path", None), self.is_generator)
            self._loop_trial = True
            try:
                trial_st = st.copy()
                self._pending_iter_path = lr.iter_path
                self._run_loop(kind, s, trial_st, iter_term, body, [], target=target, test_node=test_node, elem_map=elem_map)
                tl = self.rec.loops[max(k_ for k_ in self.rec.loops if k_ not in snap[4])] if set(self.rec.loops) - snap[4] else None
                tl = next((l_ for k_, l_ in self.rec.loops.items() if k_ not in snap[4] and l_.parent == lr.parent
                           and l_.lineno == s.lineno and l_.kind == kind), None)
                if tl is not None:
                    for n in carried:
                        if n in st.env and st.env[n].op == "new":
                            for f, v0 in st.env[n].a[1]:
                                w = tl.carried.get(f"{n}.{f}")
                                if w is not None and w.op == "widen" and all(
                                        c_ == v0 or (c_.op == "widen" and c_.a[0] == f"{n}.{f}" and c_.a[1] == tl.id and c_.a[2] == (v0,))
                                        for c_ in w.a[2]) and not any(x.op in ("widen", "elem") and tl.id in x.a[1:2]
                                                                      for x in walk(v0)):
                                    frozen[(n, f)] = v0
            except _Terminated:
                pass
            finally:
                self._loop_trial = False
                del self.rec.pops[snap[0]:]
                del self.rec.calls[snap[1]:]
                del self.rec.effects[snap[2]:]
                del self.rec.returns[snap[3]:]
                for k_ in list(self.rec.loops):
                    if k_ not in snap[4]:
                        del self.rec.loops[k_]
                del self.rec.notes[snap[5]:]
                self._pending_iter_path = None
                self.is_generator = snap[7]
        for n in carried:
            if n in st.env:
                init[n] = st.env[n]
                if st.env[n].op == "new":
                    # an object is carried field by field
                    st.env[n] = T("new", (st.env[n].a[0], tuple(
                        (f, frozen[(n, f)] if (n, f) in frozen else T("widen", (f"{n}.{f}", lid, (v,)))) for f, v in st.env[n].a[1])))
                else:
                    st.env[n] = T("widen", (n, lid, (st.env[n],)))
        # heap entries that the body may overwrite are dropped (conservative)
        self.loops = self.loops + (lid,)
        start = self.seq()
        body_st = st.copy()
        # what earlier statements stored into objects may be changed by earlier iterations: forget it (conservative)
        body_st.heap = {}
        st.heap = {}
        if kind == "while" and test_node is not None:
            lr.test = self.eval(test_node, body_st)
            tv = truth(lr.test)
            if tv is not True:
                body_st.pc = body_st.pc + ((lr.test, True),)
        if target is not None:
            elem = T("elem", (iter_term, lid))
            lr.target = elem
            self.bind(target, elem if elem_map is None else elem_map(elem), body_st, s, record=False)
        entry_len = len(body_st.pc)
        out = self.exec_block(body, body_st)
        end = self.seq()
        lr.body_seq = (start, end)
        self.loops = self.loops[:-1]
        # state after the loop: widened join of "zero iterations" and "after body"
        after = st
        # the loop target keeps its last value after the loop (`for x in xs: if p(x): break` selects x)
        tnames = [x.id for x in ast.walk(target) if isinstance(x, ast.Name)] if isinstance(target, ast.AST) else []
        for n in tnames:
            if n in st.env:
                init.setdefault(n, st.env[n])
        for n in list(carried) + [n for n in tnames if n not in carried]:
            vals = []
            if n in init:
                vals.append(init[n])
            step = None
            if out is not None and n in out.env:
                step = out.env[n]
            elif n in body_st.env:
                step = body_st.env[n]
            # an iteration cut short by `continue` ends with the value the variable has there (under that path's condition);
            # the value a variable has when the loop is left through `break` also reaches the code after the loop
            for bpc, benv in lr.continue_envs + lr.break_envs:
                if n in benv and benv[n] != step:
                    cond = pc_to_term(bpc[entry_len:])
                    step = benv[n] if (step is None or cond is None) else merge_terms(cond, benv[n], step)
            if step is not None:
                vals.append(step)
            if len(vals) == 2 and vals[0].op == "new" and vals[1].op == "new" and vals[0].a[0] == vals[1].a[0] \
                    and [f for f, _ in vals[0].a[1]] == [f for f, _ in vals[1].a[1]]:
                fields = []
                for (f, v0), (_, v1) in zip(vals[0].a[1], vals[1].a[1]):
                    if (n, f) in frozen and v1 == v0:
                        fields.append((f, v0))
                        continue
                    w = T("widen", (f"{n}.{f}", lid, tuple(_dedupe([v0, v1]))))
                    lr.carried[f"{n}.{f}"] = w
                    fields.append((f, w))
                after.env[n] = T("new", (vals[0].a[0], tuple(fields)))
                lr.carried[n] = after.env[n]
                continue
            after.env[n] = T("widen", (n, lid, tuple(_dedupe(vals))))
            lr.carried[n] = after.env[n]
        after.heap = {}
        after.pc = st.pc
        if orelse:
            if not lr.break_envs:
                return self.exec_block(orelse, after)
            # the else block is skipped when the loop was left through `break`: what it rebinds holds only on the other paths
            before = dict(after.env)
            res = self.exec_block(orelse, after)
            if res is not None:
                broke = T("broke", (lid,))
                for n, v in list(res.env.items()):
                    if n in before and before[n] != v:
                        res.env[n] = T("ite", (broke, before[n], v))
            return res
        return after

    def _filter_fold(self, s):
        """`for h in HS: G = filter(lambda t, hidden=h: E(t) != hidden, G)` installs one filter per item; together they are
        `G = filter(lambda t: E(t) not in HS, G)` (HS is read when the loop runs; nothing for an empty HS).  With the loop
        variable read by the lambda itself (`lambda t: E(t) != h`, late binding) every installed filter compares with the LAST
        item: `if HS: G = filter(lambda t: E(t) != HS[-1], G)`.  Returns the replacement statement or None."""
        if s.orelse or len(s.body) != 1 or not isinstance(s.target, ast.Name) or not isinstance(s.iter, ast.Name):
            return None
        a = s.body[0]
        if not (isinstance(a, ast.Assign) and len(a.targets) == 1 and isinstance(a.targets[0], ast.Name)
                and isinstance(a.value, ast.Call) and isinstance(a.value.func, ast.Name) and a.value.func.id == "filter"
                and len(a.value.args) == 2 and not a.value.keywords and isinstance(a.value.args[1], ast.Name)
                and a.value.args[1].id == a.targets[0].id and isinstance(a.value.args[0], ast.Lambda)):
            return None
        lam, g, h = a.value.args[0], a.targets[0].id, s.target.id
        la = lam.args
        if la.vararg or la.kwarg or la.kwonlyargs or la.posonlyargs or not la.args or g == h or s.iter.id in (g, h):
            return None
        n_def = len(la.defaults)
        plain, defaulted = la.args[:len(la.args) - n_def], la.args[len(la.args) - n_def:]
        if len(plain) != 1:
            return None
        bound = {}
        for arg_, d_ in zip(defaulted, la.defaults):
            if not (isinstance(d_, ast.Name) and d_.id == h):
                return None
            bound[arg_.arg] = True
        body = lam.body
        uses_h = any(isinstance(x, ast.Name) and x.id == h for x in ast.walk(body))
        uses_g = any(isinstance(x, ast.Name) and x.id == g for x in ast.walk(body))
        if uses_g or (uses_h and bound) or (not uses_h and not bound):
            return None
        if not (isinstance(body, ast.Compare) and len(body.ops) == 1 and isinstance(body.ops[0], ast.NotEq)):
            return None
        var_names = set(bound) if bound else {h}
        l_, r_ = body.left, body.comparators[0]
        if isinstance(r_, ast.Name) and r_.id in var_names:
            expr = l_
        elif isinstance(l_, ast.Name) and l_.id in var_names:
            expr = r_
        else:
            return None
        if any(isinstance(x, ast.Name) and x.id in var_names for x in ast.walk(expr)):
            return None
        t_ = plain[0].arg
        src = ast.unparse(expr)
        if bound:
            new = ast.parse(f"{g} = filter(lambda {t_}: ({src}) not in {s.iter.id}, {g})").body[0]
        else:
            new = ast.parse(f"if {s.iter.id}:\n    {g} = filter(lambda {t_}: ({src}) != {s.iter.id}[-1], {g})").body[0]
        for x in ast.walk(new):
            ast.copy_location(x, s)
        return new

    def s_For(self, s, st):
        folded = self._filter_fold(s)
        if folded is not None:
            return self.exec_block([folded], st)
        it = self.eval(s.iter, st)
        if it.op == "new":
            # `for x in obj` with a helper class whose __iter__ is a one-loop generator: the generator expression it equals
            f_ = self.repo.lookup(it.a[0])
            if f_ and f_[0] == "class" and "__iter__" in f_[2].methods:
                g_ = self._generator_as_comp(f_[2].module, f_[2].methods["__iter__"], (it,), (), st, cls=f_[2])
                if g_ is not None:
                    it = g_
                    st.env[f"__it{id(s)}"] = g_
                    import copy
                    s2 = copy.copy(s)
                    s2.iter = ast.copy_location(ast.Name(id=f"__it{id(s)}", ctx=ast.Load()), s.iter)
                    s = s2
        small_table = False
        if it.op == "global" and isinstance(s.iter, ast.Name):
            f_ = self.repo.lookup(it.a[0])
            small_table = bool(f_ and f_[0] == "const" and isinstance(f_[2], ast.Tuple) and 0 < len(f_[2].elts) <= 8
                               and all(isinstance(e, ast.Tuple) and _table_row(e) for e in f_[2].elts))
        if not unrollable(s) and not s.orelse and not _unrollable_body(s, small_table):
            s2_ = _without_continue(s)
            if s2_ is not None and _unrollable_body(s2_, small_table):
                s = s2_             # `if c: continue` + rest  ==  `if not c:` rest
        if unrollable(s) or (not s.orelse and _unrollable_body(s, small_table)):
            items = it
            if not unrollable(s):
                # a table-driven loop: `for raw, name in _FIELDS:` over a module-level tuple of literals (possibly reached
                # through a parameter of an inlined helper) is the same straight-line code as the literal spelled in place
                module_table = False
                if items.op == "global":
                    found = self.repo.lookup(items.a[0])
                    if found and found[0] == "const" and isinstance(found[2], (ast.Tuple, ast.List)) and found[2].elts \
                            and len(found[2].elts) <= 64 and all(_literal_seq(e) for e in found[2].elts):
                        items = self.eval(found[2], st)
                    elif found and found[0] == "const" and isinstance(found[2], ast.Tuple) and found[2].elts \
                            and len(found[2].elts) <= 64 and (all(_table_row(e) for e in found[2].elts)
                                                              or all(_helper_row(found[1], e) for e in found[2].elts)) \
                            and self.depth < self.I.inline_depth:
                        # an immutable module-level table of (key, name, function) rows: evaluated where it is defined
                        # (also rows that are objects of a plain helper class of the same module: `_Key('cm', 'name', convert)`)
                        cache = self.I.__dict__.setdefault("_table_cache", {})
                        if id(found[2]) not in cache:
                            fr = _Frame(self.I, found[1], self.fnode, None, Record(), f"{found[1].name}.<module>",
                                        self.depth + 1, self.stack)
                            cache[id(found[2])] = fr.eval(found[2], State({}, {}, ()))
                        items = cache[id(found[2])]
                        module_table = items.op == "tuple" and not any(i.op == "star" for i in items.a[0])
                if items.op in ("tuple", "list") and items.a[0] and all(i.op == "enum" for i in items.a[0]):
                    # a flat tuple of enum members stays a loop over members (the form the flag rules judge; unrolled, a body
                    # that appends conditionally doubles the term with every member)
                    items = T("unknown", ("flat-enum-members",))
                    module_table = False
                view = None

                def table_dict(t_):
                    """a dict literal, or a module-level dict of literals (NAME = {'a': 'b', ...})"""
                    if t_.op == "dict":
                        return t_
                    if t_.op == "global":
                        found = self.repo.lookup(t_.a[0])
                        if found and found[0] == "const" and isinstance(found[2], ast.Dict) and found[2].keys \
                                and len(found[2].keys) <= 64 and all(k is not None and _literal_seq(k) for k in found[2].keys) \
                                and all(_literal_seq(v) for v in found[2].values):
                            return self.eval(found[2], st)
                        if found and found[0] == "const" and isinstance(found[2], ast.Dict) and found[2].keys \
                                and len(found[2].keys) <= 16 and all(k is not None and _literal_seq(k) for k in found[2].keys) \
                                and all(_table_row(v, False) for v in found[2].values) and self.depth < self.I.inline_depth \
                                and self._spec_table_row(t_.a[0], found[2].keys[0].value) is not None:
                            # a short module-level table from constants to functions / classes that nothing changes
                            return T("dict", (tuple((const(k.value), self._spec_table_row(t_.a[0], k.value))
                                                    for k in found[2].keys),))
                    return None
                if items.op == "call" and items.a[0].op == "attr" and items.a[0].a[1] in ("items", "values", "keys") \
                        and not items.a[1] and table_dict(items.a[0].a[0]) is not None:
                    view, d_ = items.a[0].a[1], table_dict(items.a[0].a[0])
                elif table_dict(items) is not None:
                    view, d_ = "keys", table_dict(items)
                if view is not None and d_.a[0] and len(d_.a[0]) <= 64 and all(k.op == "const" for k, _ in d_.a[0]) \
                        and len({k for k, _ in d_.a[0]}) == len(d_.a[0]):
                    # a dict literal with distinct constant keys (e.g. the **kwargs of an inlined call), in insertion order
                    items = T("tuple", (tuple({"items": T("tuple", ((k, v),)), "values": v, "keys": k}[view] for k, v in d_.a[0]),))
                elif items.op == "tuple" and items.a[0] and len(items.a[0]) <= 64 and not any(i.op == "star" for i in items.a[0]) \
                        and (isinstance(s.iter, ast.Name) or (isinstance(s.iter, ast.Tuple) and len(s.iter.elts) <= 8
                                                              and (all(isinstance(e, ast.Tuple) for e in s.iter.elts)
                                                                   or all(isinstance(e, ast.Name) for e in s.iter.elts)))):
                    pass            # a local tuple literal (immutable): one copy of the body per item, whatever the items are
                elif items.op == "list" and 0 < len(items.a[0]) <= 8 and not any(i.op == "star" for i in items.a[0]) \
                        and isinstance(s.iter, ast.Name) and not any(
                            isinstance(x, ast.Name) and x.id == s.iter.id for b_ in s.body for x in ast.walk(b_)):
                    pass            # a short list literal the body never mentions (it cannot change under the loop)
                elif module_table:
                    pass
                elif not (items.op in ("tuple", "list") and items.a[0] and len(items.a[0]) <= 64 and all(_const_tree(i) for i in items.a[0])):
                    items = T("unknown", ("not-a-literal-table",))
            if items.op in ("tuple", "list") and not any(i.op == "star" for i in items.a[0]):
                for item in items.a[0]:
                    self.bind(s.target, item, st, s, record=False)
                    st = self.exec_block(s.body, st)
                    if st is None:
                        return None
                return st
            if isinstance(s.iter, ast.Name) and it.op in ("mut", "ite", "call"):
                # a local list built by (conditional) appends of constants: `for c in needed:` is the sequence of guarded
                # copies of the body, one per possible element, in order
                from .render import listify
                elems = listify(it)

                def _plain_item(e_):
                    # constants, classes and functions - and callables that cannot change under the loop: lambdas / local
                    # functions and bound methods of self (a list of predicates, of handlers)
                    return _const_tree(e_) or e_.op == "lambda" or (e_.op == "attr" and e_.a[0] == param("self")) \
                        or (e_.op == "attr" and e_.a[0].op == "new")
                if elems is not None and 0 < len(elems) <= 8 and all(_plain_item(e) for e, _ in elems):
                    for item, conds in elems:
                        if not conds:
                            self.bind(s.target, item, st, s, record=False)
                            st = self.exec_block(s.body, st)
                            if st is None:
                                return None
                            continue
                        parts = tuple(c if p_ else T("not", (c,)) for c, p_ in conds)
                        test = parts[0] if len(parts) == 1 else T("bool", ("and", parts))
                        base_pc = st.pc
                        sa = st.copy()
                        sa.pc = base_pc + ((test, True),)
                        self.bind(s.target, item, sa, s, record=False)
                        ra = self.exec_block(s.body, sa)
                        sb = st.copy()
                        sb.pc = base_pc + ((test, False),)
                        if ra is None:
                            st = sb
                        else:
                            st = merge(ra, sb, test, base_pc)
                    return st
        ds = self._desugar_for(s, it, st)
        if ds is not None:
            return self.exec_block(ds, st)
        ds2 = self._desugar_single_loop_generator(s, it, st)
        if ds2 is not None:
            return self.exec_block(ds2, st)
        done = self._for_over_generator(s, it, st)
        if done is not None:
            return done
        if it.op == "comp" and it.a[0] in ("list", "gen") and len(it.a[2]) == 1 and not it.a[2][0][2] \
                and not isinstance(s.iter, (ast.ListComp, ast.GeneratorExp)):
            # `pairs = [f(x) for x in xs]` ... `for a, b in pairs:` visits xs once, in order, with (a, b) = f(x)
            src = self.I.__dict__.get("_comp_src", {}).get(it)
            if src is not None and not s.orelse:
                # re-interpret the comprehension's own source as the loop header (its reads and calls then belong to this loop)
                import copy
                cn, cenv, cmod, ccls = src
                uid = self.I.fresh()
                g = cn.generators[0]
                tnames = {x.id for x in ast.walk(g.target) if isinstance(x, ast.Name)}
                fr_src = _Frame(self.I, cmod, None, ccls, Record(), f"{cmod.name}.<comprehension>", self.depth, self.stack)
                src_state = State(dict(cenv), {}, ())

                class _Ren(ast.NodeTransformer):
                    def visit_Name(_self, x):
                        if x.id in tnames:
                            return ast.copy_location(ast.Name(id=f"__ct{uid}_{x.id}", ctx=x.ctx), x)
                        new_id = f"__cv{uid}_{x.id}"
                        if new_id not in st.env:
                            st.env[new_id] = fr_src.eval(ast.Name(id=x.id, ctx=ast.Load()), src_state)
                        return ast.copy_location(ast.Name(id=new_id, ctx=ast.Load()), x)
                tgt2 = _Ren().visit(copy.deepcopy(g.target))
                iter2 = _Ren().visit(copy.deepcopy(g.iter))
                elt2 = _Ren().visit(copy.deepcopy(cn.elt))
                loop = ast.For(target=tgt2, iter=iter2, body=[ast.Assign(targets=[s.target], value=elt2)] + list(s.body), orelse=[])
                for x in ast.walk(loop):
                    if not hasattr(x, "lineno"):
                        ast.copy_location(x, s)
                ast.fix_missing_locations(loop)
                return self.exec_block([loop], st)
            evar, inner, _ = it.a[2][0]
            elt = it.a[1]
            self._pending_iter_path = None
            return self._run_loop("for", s, st, inner, s.body, s.orelse, target=s.target,
                                  elem_map=lambda e, elt=elt, evar=evar: subst(elt, {evar: e}))
        rep = it
        if rep.op == "ite" and all(x.op == "call" and x.a[0] == T("global", ("itertools.repeat",)) and x.a[1] and not x.a[2]
                                   and x.a[1][0] == rep.a[1].a[1][0] for x in (rep.a[1], rep.a[2])):
            rep = rep.a[1]          # `repeat(c) if n is None else repeat(c, n)`: the same element either way
        if rep.op == "call" and rep.a[0] == T("global", ("itertools.repeat",)) and 1 <= len(rep.a[1]) <= 2 and not rep.a[2] \
                and rep.a[1][0].op == "const":
            # for size in itertools.repeat(64[, n]): the loop variable is the constant, n (or no) iterations
            c_ = rep.a[1][0]
            self._pending_iter_path = None
            it2 = it if it is not rep or len(rep.a[1]) == 1 else T("call", (T("builtin", ("range",)), (rep.a[1][1],), ()))
            return self._run_loop("for", s, st, it2, s.body, s.orelse, target=s.target, elem_map=lambda e, c_=c_: c_)
        self._pending_iter_path = self.path_of(s.iter, st)
        return self._run_loop("for", s, st, it, s.body, s.orelse, target=s.target)

    def _desugar_single_loop_generator(self, s, it: T, st) -> Optional[list]:
        """`for x in gen(a): B` with

            def gen(p):
                for v in p:          # one loop, one `yield` at its top level
                    PRE
                    yield e(v)
                    POST             # e.g. `if last(v): return`

        is  `for v in a: PRE; x = e(v); B; POST'`  (POST' = POST with `return` turned into `break`): B may then carry variables
        from one iteration to the next like in any loop.  B must not `continue` / `break` itself (it would skip POST)."""
        import copy
        if s.orelse or it.op != "call" or it.a[0].op != "func" or it.a[2] or self.depth >= self.I.inline_depth:
            return None
        found = self.repo.lookup(it.a[0].a[0])
        if not found or found[0] != "func":
            return None
        fnode = found[2]
        if fnode.decorator_list or fnode.args.vararg or fnode.args.kwarg or fnode.args.kwonlyargs or fnode.args.defaults \
                or len(fnode.args.args) != len(it.a[1]) or any(a.op == "star" for a in it.a[1]):
            return None
        body = [b for b in fnode.body if not (isinstance(b, ast.Expr) and isinstance(b.value, ast.Constant))]
        if len(body) != 1 or not isinstance(body[0], ast.For) or body[0].orelse:
            return None
        loop = body[0]
        yi = [i for i, b in enumerate(loop.body) if isinstance(b, ast.Expr) and isinstance(b.value, ast.Yield)]
        if len(yi) != 1 or loop.body[yi[0]].value.value is None:
            return None
        others = [b for i, b in enumerate(loop.body) if i != yi[0]]
        if any(isinstance(x, (ast.Yield, ast.YieldFrom, ast.FunctionDef, ast.Lambda, ast.For, ast.While, ast.Try, ast.With,
                              ast.Continue)) for b in others for x in ast.walk(b)):
            return None
        if any(isinstance(x, (ast.Break, ast.Continue, ast.Return)) for b in s.body for x in ast.walk(b)
               if not isinstance(b, (ast.For, ast.While))):
            return None
        if getattr(self.repo, "fn_home", {}).get(id(fnode), found[1]) is not self.mod:
            # module-level names of the generator resolve in its own module: only taken over when that is this frame's module
            return None
        uid = self.I.fresh()
        params = [a.arg for a in fnode.args.args]
        local_names = {x.id for x in ast.walk(loop) if isinstance(x, ast.Name) and isinstance(x.ctx, ast.Store)} | set(params)

        class _Ren(ast.NodeTransformer):
            def visit_Name(_self, x):
                if x.id in local_names:
                    return ast.copy_location(ast.Name(id=f"__g{uid}_{x.id}", ctx=x.ctx), x)
                return x

            def visit_Return(_self, x):
                return ast.copy_location(ast.Break(), x)
        for p_, a_ in zip(params, it.a[1]):
            st.env[f"__g{uid}_{p_}"] = a_
        new_loop = _Ren().visit(copy.deepcopy(loop))
        y = new_loop.body[yi[0]]
        assign = ast.Assign(targets=[s.target], value=y.value.value)
        new_loop.body = new_loop.body[:yi[0]] + [assign] + list(s.body) + new_loop.body[yi[0] + 1:]
        for x in ast.walk(new_loop):
            if not hasattr(x, "lineno"):
                ast.copy_location(x, s)
        ast.fix_missing_locations(new_loop)
        return [new_loop]

    def _for_over_generator(self, s, it: T, st):
        """`for x in gen(args): B` with `gen` a generator function of the package (or a generator method of self): the body of
        `gen` is interpreted in place and B runs at each of its `yield`s, inside the loops and conditions the yield sits in.
        Supported when B rebinds nothing but the loop target (no accumulation across iterations), and has no break / continue /
        return of its own; the state after the loop is the caller's state after the last such run."""
        if s.orelse or it.op != "call" or self.depth >= self.I.inline_depth:
            return None
        f, args, kwargs = it.a
        target = None
        if f.op == "func":
            found = self.repo.lookup(f.a[0])
            if found and found[0] == "func":
                target = (found[1], found[2], None, None, f.a[0])
        elif f.op == "attr" and f.a[0].op == "param" and f.a[0].a[0] in ("self", "cls") and self.self_cls is not None \
                and f.a[1] in self.self_cls.methods:
            target = (self.self_cls.module, self.self_cls.methods[f.a[1]], self.self_cls, f.a[0],
                      f"{self.self_cls.qualname}.{f.a[1]}")
        if target is None:
            return None
        mod, fnode, cls, recv, qn = target
        if id(fnode) in self.stack or not any(isinstance(x, ast.Yield) for x in ast.walk(fnode)) \
                or any(isinstance(x, ast.YieldFrom) for x in ast.walk(fnode)):
            return None
        if any(a.op == "star" for a in args) or any(k == "**" for k, _ in kwargs) or fnode.decorator_list and not all(
                ast.unparse(d) in ("staticmethod", "classmethod") for d in fnode.decorator_list):
            return None
        tnames = {x.id for x in ast.walk(s.target) if isinstance(x, ast.Name)}
        for b_ in s.body:
            for x in ast.walk(b_):
                if isinstance(x, (ast.Break, ast.Continue, ast.Return, ast.FunctionDef, ast.Lambda, ast.Try, ast.With)):
                    return None
        def iteration_local(name):
            """bound by a plain top-level assignment of the body before anything reads it: a fresh value in every iteration"""
            for b_ in s.body:
                loads = any(isinstance(x, ast.Name) and x.id == name and isinstance(x.ctx, ast.Load) for x in ast.walk(b_))
                if isinstance(b_, ast.Assign) and len(b_.targets) == 1 and isinstance(b_.targets[0], ast.Name) \
                        and b_.targets[0].id == name and not loads:
                    return True
                if loads or any(isinstance(x, ast.Name) and x.id == name for x in ast.walk(b_)):
                    return False
            return False
        if any(not iteration_local(nm_) for nm_ in set(self._assigned_names(s.body, st.env)) - tnames):
            return None
        mod = getattr(self.repo, "fn_home", {}).get(id(fnode), mod)
        fr = _Frame(self.I, mod, fnode, cls, self.rec, qn, self.depth + 1, self.stack + (id(fnode),),
                    base_pc=st.pc, base_loops=self.loops, base_trys=self.trys)
        pos = list(args)
        is_static = any(ast.unparse(d) == "staticmethod" for d in fnode.decorator_list)
        if cls is not None and not is_static:
            pos.insert(0, recv)
        cs = fr.bind_params({}, symbolic_missing=False, positional=tuple(pos), kwargs=kwargs)
        cs.heap = st.heap
        fr.expanded_generator = True
        outer = st
        caller = self

        def on_yield(value, cst):
            saved = (caller.loops, caller.trys, outer.pc)
            caller.loops, caller.trys, outer.pc = fr.loops, fr.trys, cst.pc
            outer.heap = cst.heap
            caller.bind(s.target, value, outer, s, record=False)
            res = caller.exec_block(s.body, outer)
            if res is not None and res is not outer:
                outer.env, outer.heap = res.env, res.heap
            cst.heap = outer.heap
            caller.loops, caller.trys, outer.pc = saved
        fr.on_yield = on_yield
        fr.exec_block(fnode.body, cs)
        if fr.is_generator is False:
            pass
        return outer

    def _desugar_for(self, s, it: T, st) -> Optional[list]:
        """Loops driven through the iterator protocol, as the plain loops they are:

            for x in (e(y) for y in ys if c(y)):  B    ->  for y in ys: if not c(y): continue; x = e(y); B
            for x in map(f, xs):  B                     ->  for _e in xs: x = f(_e); B
            for x in map(f, repeat(c, n)):  B           ->  for _i in range(n): x = f(c); B
            for x in iter(f, sentinel):  B              ->  while True: x = f(); if x == sentinel: break; B
            for _ in chain((k,), iter(f, sentinel)): B  ->  while True: B; if f() == sentinel: break      (B ignores _)

        (map / filter / iter are lazy: the calls interleave with the body exactly as written on the right)"""
        if s.orelse or getattr(s, "_desugared", False):
            return None
        uid = self.I.fresh()

        def nm(tag):
            return f"__ds{uid}_{tag}"

        def fin(nodes):
            for n_ in nodes:
                for x in ast.walk(n_):
                    if not hasattr(x, "lineno"):
                        ast.copy_location(x, s)
                ast.fix_missing_locations(n_)
            return nodes

        def load(n_):
            return ast.Name(id=n_, ctx=ast.Load())

        def store(n_):
            return ast.Name(id=n_, ctx=ast.Store())

        if isinstance(s.iter, ast.GeneratorExp) and len(s.iter.generators) == 1 and not s.iter.generators[0].is_async:
            g = s.iter.generators[0]
            gnames = {x.id for x in ast.walk(g.target) if isinstance(x, ast.Name)}
            if gnames & set(st.env):
                return None
            body = [ast.If(test=ast.UnaryOp(op=ast.Not(), operand=c), body=[ast.Continue()], orelse=[]) for c in g.ifs]
            body.append(ast.Assign(targets=[s.target], value=s.iter.elt))
            return fin([ast.For(target=g.target, iter=g.iter, body=body + list(s.body), orelse=[])])

        def is_call(t, kind, name, nargs):
            return t.op == "call" and t.a[0] == T(kind, (name,)) and len(t.a[1]) in nargs and not t.a[2] \
                and not any(a.op == "star" for a in t.a[1])
        stages = []
        cur = it
        while True:
            if is_call(cur, "builtin", "map", (2,)):
                stages.insert(0, ("map", cur.a[1][0]))
                cur = cur.a[1][1]
            elif is_call(cur, "builtin", "filter", (2,)):
                stages.insert(0, ("filter", cur.a[1][0]))
                cur = cur.a[1][1]
            elif is_call(cur, "builtin", "iter", (1,)):
                cur = cur.a[1][0]
            else:
                break
        target_names = {x.id for x in ast.walk(s.target) if isinstance(x, ast.Name)}
        body_reads = {x.id for b_ in s.body for x in ast.walk(b_) if isinstance(x, ast.Name) and isinstance(x.ctx, ast.Load)}
        has_continue = any(isinstance(x, ast.Continue) for b_ in s.body for x in ast.walk(b_)
                           if not isinstance(b_, (ast.For, ast.While)))
        pre, loop_kind, loop_args, post = [], None, None, []
        if is_call(cur, "builtin", "iter", (2,)):
            st.env[nm("f")], st.env[nm("s")] = cur.a[1]
            pre = [ast.Assign(targets=[store(nm("e0"))], value=ast.Call(func=load(nm("f")), args=[], keywords=[])),
                   ast.If(test=ast.Compare(left=load(nm("e0")), ops=[ast.Eq()], comparators=[load(nm("s"))]),
                          body=[ast.Break()], orelse=[])]
            loop_kind = "while"
        elif is_call(cur, "global", "itertools.repeat", (2,)) and stages and stages[0][0] == "map":
            # map(f, repeat(c, n)): n calls f(c)
            st.env[nm("c")], st.env[nm("n")] = cur.a[1]
            loop_kind = "for"
            loop_args = (store(nm("i")), ast.Call(func=ast.Name(id="range", ctx=ast.Load()), args=[load(nm("n"))], keywords=[]))
            pre = [ast.Assign(targets=[store(nm("e0"))], value=load(nm("c")))]
        elif is_call(cur, "global", "itertools.chain", (2,)) and not stages and cur.a[1][0].op in ("tuple", "list") \
                and len(cur.a[1][0].a[0]) == 1 and is_call(cur.a[1][1], "builtin", "iter", (2,)) \
                and not (target_names & body_reads) and not has_continue:
            st.env[nm("f")], st.env[nm("s")] = cur.a[1][1].a[1]
            loop_kind = "while"
            post = [ast.If(test=ast.Compare(left=ast.Call(func=load(nm("f")), args=[], keywords=[]), ops=[ast.Eq()],
                                            comparators=[load(nm("s"))]), body=[ast.Break()], orelse=[])]
            return fin([ast.While(test=ast.Constant(True), body=list(s.body) + post, orelse=[])])
        elif stages:
            st.env[nm("x")] = cur
            loop_kind = "for"
            loop_args = (store(nm("e0")), load(nm("x")))
        else:
            return None
        body = list(pre)
        last = nm("e0")
        for i, (kind, fterm) in enumerate(stages):
            if kind == "filter":
                if fterm == NONE:
                    keep = load(last)
                else:
                    st.env[nm(f"g{i}")] = fterm
                    keep = ast.Call(func=load(nm(f"g{i}")), args=[load(last)], keywords=[])
                body.append(ast.If(test=ast.UnaryOp(op=ast.Not(), operand=keep), body=[ast.Continue()], orelse=[]))
                continue
            st.env[nm(f"g{i}")] = fterm
            nxt = nm(f"e{i + 1}")
            body.append(ast.Assign(targets=[store(nxt)], value=ast.Call(func=load(nm(f"g{i}")), args=[load(last)], keywords=[])))
            last = nxt
        body.append(ast.Assign(targets=[s.target], value=load(last)))
        body.extend(s.body)
        if loop_kind == "while":
            loop = ast.While(test=ast.Constant(True), body=body, orelse=[])
        else:
            loop = ast.For(target=loop_args[0], iter=loop_args[1], body=body, orelse=[])
            loop._desugared = True
        return fin([loop])

    def s_While(self, s, st):
        res = self._run_loop("while", s, st, None, s.body, s.orelse, test_node=s.test)
        return res

    def s_With(self, s, st):
        for item in s.items:
            v = self.eval(item.context_expr, st)
            if item.optional_vars is not None:
                self.bind(item.optional_vars, T("call", (T("attr", (v, "__enter__")), (), ())), st, s, record=False)
        return self.exec_block(s.body, st)

    def s_Try(self, s, st):
        cache = self.I.__dict__.setdefault("_try_ifs", {})
        if id(s) not in cache:
            cache[id(s)] = try_as_ifs(s)
        if cache[id(s)] is not None:
            return self.exec_block(cache[id(s)], st)
        names = []
        for h in s.handlers:
            if h.type is None:
                names.append("BaseException")
            elif isinstance(h.type, ast.Tuple):
                names.extend(ast.unparse(e) for e in h.type.elts)
            else:
                names.append(ast.unparse(h.type))
        before = st.copy()
        self.trys = self.trys + (tuple(names),)
        body_out = self.exec_block(s.body, st)
        self.trys = self.trys[:-1]
        if body_out is not None and s.orelse:
            body_out = self.exec_block(s.orelse, body_out)
        outs = [body_out] if body_out is not None else []
        carried = self._assigned_names(s.body, before.env)
        for h in s.handlers:
            hs = before.copy()
            # a single-statement body raises before its own assignment completes: the handler sees the state before it
            # a name that only the LAST statement of the body binds (a plain assignment) still has its old value in the
            # handler: had that assignment completed, nothing could have raised after it
            last = s.body[-1]
            only_last = set()
            if isinstance(last, (ast.Assign, ast.AugAssign, ast.AnnAssign)):
                tg = last.targets if isinstance(last, ast.Assign) else [last.target]
                if all(isinstance(t_, ast.Name) for t_ in tg):
                    only_last = {t_.id for t_ in tg} - set(self._assigned_names(s.body[:-1], before.env))
            for n in ([] if len(s.body) == 1 else carried):
                if n in only_last:
                    continue
                vals = _dedupe([before.env.get(n, UNDEF)] + ([body_out.env[n]] if body_out is not None and n in body_out.env else []))
                hs.env[n] = vals[0] if len(vals) == 1 else T("widen", (n, 0, tuple(vals)))
            if h.name:
                hs.env[h.name] = T("unknown", ("exception",))
            ho = self.exec_block(h.body, hs)
            if ho is not None:
                outs.append(ho)
        if not outs:
            res = None
        else:
            res = outs[0]
            for o in outs[1:]:
                res = merge(res, o, T("unknown", ("exception-raised",)), before.pc)
        if s.finalbody:
            if res is None:
                self.exec_block(s.finalbody, before.copy())
                return None
            return self.exec_block(s.finalbody, res)
        return res

    # ------------------------------------------------------------------ binding
    def bind(self, tgt, v: T, st: State, stmt, record=True, aug=None, aug_val=None):
        if isinstance(tgt, ast.Name):
            st.env[tgt.id] = v
        elif isinstance(tgt, (ast.Tuple, ast.List)):
            n = len(tgt.elts)
            v = self._spread_map(v, st, stmt)
            if not any(isinstance(e, ast.Starred) for e in tgt.elts):
                self.rec.pops.append(POp("unpack", v, n, st.pc, self.loops, self.trys, self.seq(), self.qualname,
                                         getattr(tgt, "lineno", 0), getattr(tgt, "col_offset", 0)))
            lit_ = v.op in ("tuple", "list") and not any(i_.op == "star" for i_ in v.a[0]) and len(v.a[0]) >= n - 1 \
                and sum(isinstance(e, ast.Starred) for e in tgt.elts) == 1
            for i, e in enumerate(tgt.elts):
                if isinstance(e, ast.Starred) and lit_:
                    # a, *rest = (x, y, z): rest is the list of the items in between
                    self.bind(e.value, T("list", (tuple(v.a[0][i:len(v.a[0]) - (n - 1 - i)]),)), st, stmt, record)
                elif isinstance(e, ast.Starred):
                    if sum(isinstance(e2, ast.Starred) for e2 in tgt.elts) == 1 and v.op not in ("unknown",):
                        # a, *rest, z = xs: rest is xs[1:-1] (a list)
                        hi_ = NONE if i == n - 1 else const(-(n - 1 - i))
                        self.bind(e.value, T("slice", (v, const(i) if i else NONE, hi_)), st, stmt, record)
                    else:
                        self.bind(e.value, T("unknown", ("starred-unpack",)), st, stmt, record)
                elif lit_ and any(isinstance(e2, ast.Starred) for e2 in tgt.elts[:i]):
                    self.bind(e, v.a[0][len(v.a[0]) - (n - i)], st, stmt, record)
                elif any(isinstance(e2, ast.Starred) for e2 in tgt.elts[:i]):
                    # a name after the star is counted from the end: *_, end = xs gives xs[-1]
                    self.bind(e, self.index_term(v, const(i - n), None), st, stmt, record)
                else:
                    self.bind(e, self.index_term(v, const(i), n), st, stmt, record)
        elif isinstance(tgt, ast.Attribute):
            base = self.eval(tgt.value, st)
            if record:
                self.effect("attr-store", base, tgt.attr, v, (), st, tgt, aug=aug, aug_val=aug_val,
                            path=self.path_of(tgt.value, st))
            if isinstance(tgt.value, ast.Name) and base.op == "new" and tgt.value.id in st.env:
                st.env[tgt.value.id] = new_with(base, tgt.attr, v)
            else:
                st.heap[T("attr", (base, tgt.attr))] = v
        elif isinstance(tgt, ast.Subscript):
            base = self.eval(tgt.value, st)
            key = self.eval_index(tgt.slice, st)
            if record:
                self.effect("sub-store", base, key, v, (), st, tgt, aug=aug, aug_val=aug_val,
                            path=self.path_of(tgt.value, st))
            local = isinstance(tgt.value, ast.Name) and tgt.value.id in st.env and st.env[tgt.value.id].op != "alias" \
                and not _reached_object(base)
            if local and base.op == "dict":
                st.env[tgt.value.id] = T("dict", (base.a[0] + ((key, v),),))
            elif local:
                st.env[tgt.value.id] = T("mut", (base, "__setitem__", (key, v)))
            else:
                st.heap[T("sub", (self.path_of(tgt.value, st), key))] = v
        elif isinstance(tgt, ast.Starred):
            self.bind(tgt.value, v, st, stmt, record)

    def _spread_map(self, v: T, st: State, stmt) -> T:
        """`a, b = map(f, (x, y))` / `reversed((x, y))` being unpacked: the tuple of the items, f applied to each."""
        def lit(t):
            if t.op == "call" and t.a[0] == T("builtin", ("reversed",)) and len(t.a[1]) == 1 and not t.a[2]:
                inner = lit(t.a[1][0])
                return None if inner is None else tuple(reversed(inner))
            if t.op in ("tuple", "list") and not any(i_.op == "star" for i_ in t.a[0]):
                return tuple(t.a[0])
            return None
        direct = lit(v)
        if direct is not None and v.op == "call":
            return T("tuple", (direct,))
        if v.op == "call" and v.a[0] == T("builtin", ("map",)) and len(v.a[1]) == 2 and not v.a[2]:
            f, xs = v.a[1]
            items = lit(xs)
            if items is not None and f.op in ("builtin", "func", "lambda", "global") and len(items) <= 8:
                try:
                    return T("tuple", (tuple(self.call(f, (x,), (), st, stmt) for x in items),))
                except AnalysisError:
                    return v
        return v

    def _is_sentinel(self, v: T) -> bool:
        """A module-level `NAME = object()` of the package: a value no table can contain."""
        if v.op == "global" and v.a[0].startswith("pykdebugparser."):
            found = self.repo.lookup(v.a[0])
            return bool(found and found[0] == "const" and isinstance(found[2], ast.Call) and not found[2].args
                        and not found[2].keywords and isinstance(found[2].func, ast.Name) and found[2].func.id == "object")
        return False

    def _struct_format(self, v: T) -> Optional[T]:
        """The format of a compiled struct.Struct(fmt) object (a module constant of the package or built in place)."""
        if v.op == "call" and v.a[0] == T("global", ("struct.Struct",)) and len(v.a[1]) == 1 and not v.a[2]:
            return v.a[1][0]
        if v.op == "global" and v.a[0].startswith("pykdebugparser."):
            found = self.repo.lookup(v.a[0])
            if found and found[0] == "const" and isinstance(found[2], ast.Call) and len(found[2].args) == 1 \
                    and not found[2].keywords and self.repo.dotted(found[1], found[2].func) == "struct.Struct":
                val = consteval.evaluate(self.repo, found[1], found[2].args[0])
                if isinstance(val, (str, bytes)):
                    return const(val)
        return None

    def _namedtuple_item(self, v: T, key) -> Optional[T]:
        """v == NT(a, b, c=...) for a module-level `NT = namedtuple('NT', fields)`: the item at position / field `key`."""
        if v.op == "global" and v.a[0].startswith("pykdebugparser."):
            # a module-level instance `UNKNOWN = NT(pid=-1, name='')` (immutable, bound once): the call it was made by
            cache = self.I.__dict__.setdefault("_nt_instance_cache", {})
            if v.a[0] not in cache:
                cache[v.a[0]] = None
                f_ = self.repo.lookup(v.a[0])
                if f_ and f_[0] == "const" and isinstance(f_[2], ast.Call) and not any(
                        isinstance(x, (ast.Call, ast.Lambda)) for a_ in list(f_[2].args) + [k.value for k in f_[2].keywords]
                        for x in ast.walk(a_)):
                    nm_ = v.a[0].rsplit(".", 1)[1]
                    stores_ = sum(1 for x in ast.walk(f_[1].tree) if isinstance(x, ast.Name) and x.id == nm_
                                  and isinstance(x.ctx, (ast.Store, ast.Del)))
                    dn_ = self.repo.dotted(f_[1], f_[2].func)
                    if stores_ == 1 and dn_ and self.I.namedtuple_fields(dn_) is not None:
                        fr_ = _Frame(self.I, f_[1], None, None, Record(), f"{f_[1].name}.<module>", self.depth + 1, self.stack)
                        cache[v.a[0]] = fr_.eval(f_[2], State({}, {}, ()))
            if cache[v.a[0]] is None:
                return None
            v = cache[v.a[0]]
        if not (v.op == "call" and v.a[0].op == "global" and v.a[0].a[0].startswith("pykdebugparser.")):
            return None
        fields = self.I.namedtuple_fields(v.a[0].a[0])
        if not fields or any(a.op == "star" for a in v.a[1]) or any(k == "**" for k, _ in v.a[2]):
            return None
        bound = dict(zip(fields, v.a[1]))
        bound.update(dict(v.a[2]))
        if isinstance(key, int):
            if not -len(fields) <= key < len(fields):
                return None
            key = fields[key]
        return bound.get(key)

    def index_term(self, v: T, idx: T, n_targets: Optional[int] = None) -> T:
        if v.op == "global" and idx.op == "const" and isinstance(idx.a[0], int) and not isinstance(idx.a[0], bool) \
                and v.a[0].startswith("pykdebugparser."):
            f_ = self.repo.lookup(v.a[0])
            if f_ and f_[0] == "const" and isinstance(f_[2], ast.Tuple):
                v_ = consteval.evaluate(self.repo, f_[1], f_[2])
                if isinstance(v_, tuple) and -len(v_) <= idx.a[0] < len(v_) \
                        and isinstance(v_[idx.a[0]], (int, str, bytes, float, bool, type(None))):
                    return const(v_[idx.a[0]])
                if -len(f_[2].elts) <= idx.a[0] < len(f_[2].elts) and isinstance(f_[2].elts[idx.a[0]], (ast.Name, ast.Attribute)) \
                        and not any(isinstance(e_, ast.Starred) for e_ in f_[2].elts):
                    # a module-level tuple of classes / functions: the item named at that position
                    fr_ = _Frame(self.I, f_[1], None, None, Record(), f"{f_[1].name}.<module>", self.depth + 1, self.stack)
                    it_ = fr_.eval(f_[2].elts[idx.a[0]], State({}, {}, ()))
                    if it_.op in ("class", "func", "enum", "const"):
                        return it_
        if idx.op == "const" and isinstance(idx.a[0], int) and not isinstance(idx.a[0], bool) and v.op == "slice" and len(v.a) == 3 \
                and v.a[0].op == "attr" and v.a[0].a[1] == "values" and v.a[1].op == "const" and v.a[2].op == "const":
            # record.values[1:][0] is record.values[1] (a record has exactly four words)
            try:
                picked = list(range(VALUES_ARITY))[slice(v.a[1].a[0], v.a[2].a[0])]
                if -len(picked) <= idx.a[0] < len(picked):
                    return T("sub", (v.a[0], const(picked[idx.a[0]])))
            except TypeError:
                pass
        if idx.op == "const" and isinstance(idx.a[0], int):
            nt = self._namedtuple_item(v, idx.a[0])
            if nt is not None:
                return nt
            if v.op == "call" and v.a[0] == T("builtin", ("divmod",)) and len(v.a[1]) == 2 and not v.a[2] \
                    and idx.a[0] in (0, 1, -1, -2):
                # divmod(a, b) is (a // b, a % b)
                return self.binop("//" if idx.a[0] in (0, -2) else "%", v.a[1][0], v.a[1][1])
        if v.op in ("tuple", "list") and idx.op == "const" and isinstance(idx.a[0], int):
            items = v.a[0]
            if -len(items) <= idx.a[0] < len(items) and not any(i.op == "star" for i in items):
                return items[idx.a[0]]
        if v.op == "ite" and n_targets is not None:
            return T("ite", (v.a[0], self.index_term(v.a[1], idx, n_targets), self.index_term(v.a[2], idx, n_targets)))
        if v.op == "slice" and len(v.a) == 3 and idx.op == "const" and isinstance(idx.a[0], int) and idx.a[0] >= 0 \
                and n_targets is not None and v.a[1] in (NONE, const(0)) and v.a[2].op == "const" \
                and isinstance(v.a[2].a[0], int) and n_targets == v.a[2].a[0] and idx.a[0] < n_targets \
                and v.a[0].op == "attr" and v.a[0].a[1] == "values":
            # a, b = words[:2] with `words` the four-word tuple of a record: a = words[0], b = words[1]
            return T("sub", (v.a[0], idx))
        return T("sub", (v, idx))

    def effect(self, kind, base, key, value, args, st, node, aug=None, aug_val=None, path=None):
        if kind in ("sub-store", "mut-call", "del-sub"):
            root = root_of(path if path is not None else base) if (path is not None or base is not None) else None
            if root is not None and root.op == "global" and self.I.memo_mode(root.a[0]) is not None:
                kind = "memo-" + kind          # a proved memo table: not state (vstatic/memo.py)
        self.rec.effects.append(Effect(kind, base, key, value if aug_val is None else aug_val, args, st.pc, self.loops,
                                       self.trys, self.seq(), self.qualname, getattr(node, "lineno", 0),
                                       getattr(node, "col_offset", 0), aug, path,
                                       getattr(self, "_store_alias", None) if kind in ("attr-store", "sub-store") else None))

    def path_of(self, node, st: State) -> T:
        """Syntactic access path of an expression: names resolved through the environment, attribute and
        subscript chains kept as written (no heap lookup, nothing recorded)."""
        if isinstance(node, ast.Attribute):
            return T("attr", (self.path_of(node.value, st), node.attr))
        if isinstance(node, ast.Subscript) and not isinstance(node.slice, ast.Slice):
            saved = (len(self.rec.pops), len(self.rec.calls))
            idx = self.eval(node.slice, st)
            del self.rec.pops[saved[0]:]
            del self.rec.calls[saved[1]:]
            return T("sub", (self.path_of(node.value, st), idx))
        if isinstance(node, ast.Name) and node.id in st.env and st.env[node.id].op == "alias":
            if isinstance(st.env[node.id].a[0], T):
                return st.env[node.id].a[0]
            return self.path_of(self.I._alias_exprs[st.env[node.id].a[0]], st)
        saved = (len(self.rec.pops), len(self.rec.calls), len(self.rec.effects), len(self.rec.returns))
        v = self.eval(node, st)
        del self.rec.pops[saved[0]:]
        del self.rec.calls[saved[1]:]
        del self.rec.effects[saved[2]:]
        del self.rec.returns[saved[3]:]
        # an alias of an object reached through a path keeps denoting that path, however often it was mutated
        w = v
        while w.op == "mut":
            w = w.a[0]
        if w.op in ("attr", "sub") and w is not v:
            return w
        return v

    # -------------------------------------------------------------- expressions
    def eval(self, node, st: State) -> T:
        if node is None:
            return NONE
        m = getattr(self, "e_" + type(node).__name__, None)
        if m is None:
            self.rec.notes.append(f"{self.qualname}:{getattr(node, 'lineno', 0)}: unsupported expression {type(node).__name__}")
            return T("unknown", (type(node).__name__,))
        return m(node, st)

    def e_Constant(self, n, st):
        return const(n.value)

    def e_Name(self, n, st):
        if n.id in st.env:
            v = st.env[n.id]
            if v.op == "alias":
                if isinstance(v.a[0], T):
                    return st.heap.get(v.a[0], v.a[0])      # the object at that path (established to exist)
                return self.eval(self.I._alias_exprs[v.a[0]], st)
            return v
        g = self.resolve_global(n.id)
        if g.op == "global" and g.a[0].startswith("pykdebugparser.") and isinstance(n.ctx, ast.Load):
            mo = self._mutable_module_object(g.a[0])
            if mo is not None:
                # a module-level helper object whose methods change it (a shared cursor, a scratch buffer): inside this call it
                # is followed like a local object - but what its fields hold on entry is whatever the previous call left there
                st.env[n.id] = mo
                return mo
        return g

    def _mutable_module_object(self, dotted: str) -> Optional[T]:
        found = self.repo.lookup(dotted)
        if not found or found[0] != "const" or not isinstance(found[2], ast.Call) or self.depth >= self.I.inline_depth:
            return None
        cache = self.I.__dict__.setdefault("_mutable_module_objects", {})
        if id(found[2]) in cache:
            return cache[id(found[2])]
        cache[id(found[2])] = None
        cdn = self.repo.dotted(found[1], found[2].func)
        cf = self.repo.lookup(cdn) if cdn else None
        if not cf or cf[0] != "class":
            return None
        ci: ClassInfo = cf[2]
        if ci.is_dataclass or ci.enum_kind or "__init__" not in ci.methods or ci.qualname in API_CLASSES \
                or not all(b in ("object", "builtins.object") for b in ci.bases) or ci.node.decorator_list:
            return None
        name = dotted.rsplit(".", 1)[1]
        if sum(1 for x in ast.walk(found[1].tree) if isinstance(x, ast.Name) and x.id == name
               and isinstance(x.ctx, (ast.Store, ast.Del))) != 1:
            return None
        stored = False
        for mname, m in ci.methods.items():
            if mname == "__init__":
                continue
            for x in ast.walk(m):
                if isinstance(x, ast.Attribute) and isinstance(x.ctx, (ast.Store, ast.Del)) and isinstance(x.value, ast.Name) \
                        and x.value.id == "self":
                    stored = True
        if not stored:
            return None
        fr = _Frame(self.I, found[1], None, None, Record(), f"{found[1].name}.<module>", self.depth + 1, self.stack)
        v = fr.eval(found[2], State({}, {}, ()))
        if v.op == "new":
            cache[id(found[2])] = T("new", (v.a[0], tuple((k, T("unknown", (f"state left in {name}.{k} by an earlier call",)))
                                                        for k, _ in v.a[1])))
        return cache[id(found[2])]

    def resolve_global(self, name: str, mod: Optional[ModuleInfo] = None) -> T:
        mod = mod or self.mod
        if name in mod.functions:
            return T("func", (f"{mod.name}.{name}",))
        if name in mod.classes:
            return T("class", (f"{mod.name}.{name}",))
        if name in mod.constants:
            v = consteval.evaluate(self.repo, mod, mod.constants[name])
            if v is not consteval.UNKNOWN and isinstance(v, (int, str, bytes, float, bool, type(None))):
                return const(v)
            if isinstance(v, tuple) and 0 < len(v) <= 64 and isinstance(mod.constants[name], ast.Call) \
                    and all(isinstance(x, (int, str, bytes, float, bool, type(None))) for x in v):
                # a COMPUTED tuple of scalars (`tuple(range(0, 32, 8))`): the tuple it evaluates to
                return T("tuple", (tuple(const(x) for x in v),))
            cv = self._callable_constant(mod, mod.constants[name])
            if cv is not None:
                return cv
            et = self._enum_table_constant(mod, mod.constants[name])
            if et is not None:
                return et
            return T("global", (f"{mod.name}.{name}",))
        if name in mod.imports:
            dotted = mod.imports[name]
            found = self.repo.lookup(dotted)
            if found:
                kind, fmod, obj = found
                if kind == "func":
                    return T("func", (f"{fmod.name}.{obj.name}",))
                if kind == "class":
                    return T("class", (obj.qualname,))
                if kind == "const":
                    v = consteval.evaluate(self.repo, fmod, obj)
                    if v is not consteval.UNKNOWN and isinstance(v, (int, str, bytes, float, bool, type(None))):
                        return const(v)
                    return T("global", (dotted if dotted.rpartition(".")[0] == fmod.name else f"{fmod.name}.{dotted.rpartition('.')[2]}",))
            return T("global", (dotted,))
        if name in BUILTINS:
            return T("builtin", (name,))
        if name in ("True", "False", "None"):
            return const({"True": True, "False": False, "None": None}[name])
        return T("global", (f"?{name}",))

    def _enum_table_constant(self, mod: ModuleInfo, node) -> Optional[T]:
        """`TABLE = tuple((m.value, m) for m in Flags)` / `... for m in Flags.__members__.values()`: a table computed at import
        time from an enum class of the package - the tuple of rows it evaluates to (one per member, in definition order)."""
        if not (isinstance(node, ast.Call) and isinstance(node.func, ast.Name) and node.func.id in ("tuple", "list")
                and len(node.args) == 1 and not node.keywords and isinstance(node.args[0], (ast.GeneratorExp, ast.ListComp))):
            return None
        comp = node.args[0]
        if len(comp.generators) != 1 or comp.generators[0].ifs or not isinstance(comp.generators[0].target, ast.Name):
            return None
        cache = self.I.__dict__.setdefault("_enum_tables", {})
        if id(node) in cache:
            return cache[id(node)]
        cache[id(node)] = None
        src = comp.generators[0].iter
        all_members = False
        if isinstance(src, ast.Call) and isinstance(src.func, ast.Attribute) and src.func.attr == "values" and not src.args \
                and isinstance(src.func.value, ast.Attribute) and src.func.value.attr == "__members__":
            src, all_members = src.func.value.value, True
        dn = self.repo.dotted(mod, src)
        f_ = self.repo.lookup(dn) if dn else None
        if not f_ or f_[0] != "class" or not f_[2].enum_kind or len(f_[2].members) > 12:   # (longer tables: unrolled loops over them grow exponentially)
            return None
        ci = f_[2]
        members = []
        seen_vals = set()
        for nme, val in ci.members:
            if not all_members:
                if val in seen_vals:
                    continue            # an alias is not yielded by iteration
                if ci.enum_kind in ("Flag", "IntFlag") and (not isinstance(val, int) or val == 0 or bin(val).count("1") != 1):
                    continue            # iterating a Flag class yields the canonical single-bit members only (3.11+)
            seen_vals.add(val)
            members.append(nme)
        fr = _Frame(self.I, mod, None, None, Record(), f"{mod.name}.<module>", self.depth + 1, self.stack)
        rows = []
        for nme in members:
            stt = State({comp.generators[0].target.id: T("enum", (ci.qualname, nme))}, {}, ())
            rows.append(fr.eval(comp.elt, stt))
        cache[id(node)] = T("tuple", (tuple(rows),))
        return cache[id(node)]

    def _callable_constant(self, mod: ModuleInfo, node) -> Optional[T]:
        """A module-level `NAME = lambda ...`, `NAME = operator.methodcaller('split')`, `NAME = functools.partial(f, ...)` or
        `NAME = _factory(Cls, 2)` (a package function returning a closure): the callable itself.  The defining expression is
        evaluated in a scratch record: what matters is the callable it yields, not the effects of building it."""
        ok = isinstance(node, ast.Lambda)
        if isinstance(node, ast.Call):
            dn = self.repo.dotted(mod, node.func)
            if dn in ("operator.attrgetter", "operator.itemgetter", "operator.methodcaller"):
                ok = all(isinstance(a, ast.Constant) for a in node.args) and not node.keywords
            elif dn in ("functools.partial", "partial"):
                ok = True
            elif dn and dn.startswith("pykdebugparser."):
                found = self.repo.lookup(dn)
                ok = bool(found) and found[0] == "func" and any(isinstance(x, (ast.FunctionDef, ast.Lambda))
                                                                  for x in ast.walk(found[2]) if x is not found[2])
        if not ok or self.depth >= self.I.inline_depth:
            return None
        cache = self.I.__dict__.setdefault("_callable_cache", {})
        k = id(node)
        if k not in cache:
            fr = _Frame(self.I, mod, self.fnode, None, Record(), f"{mod.name}.<module>", self.depth + 1, self.stack)
            v = fr.eval(node, State({}, {}, ()))
            cache[k] = v if v.op in ("lambda", "call", "func") else None
        return cache[k]

    def e_Attribute(self, n, st):
        base = self.eval(n.value, st)
        if base.op == "new" and isinstance(n.value, ast.Name) and n is not getattr(self, "_callee", None) \
                and n.value.id in st.env and st.env[n.value.id] == base:
            f_ = self.repo.lookup(base.a[0])
            if f_ and f_[0] == "class" and n.attr in f_[2].methods and not f_[2].is_dataclass \
                    and not any(ast.unparse(d_) in ("property", "functools.cached_property", "cached_property")
                                for d_ in f_[2].methods[n.attr].decorator_list):
                # a bound method of a local helper object taken as a VALUE (stored in a table, handed to a call): whoever holds
                # it can change the object at any time - from here on nothing is known about the object's fields
                st.env[n.value.id] = T("new", (base.a[0], tuple((k, T("unknown", (f"escaped:{n.value.id}.{k}",)))
                                                                 for k, _ in base.a[1])))
        return self.attr(base, n.attr, st, n)

    def attr(self, base: T, name: str, st: State, node=None) -> T:
        if base.op == "builtin" and base.a[0] in ("str", "bytes") and hasattr(str if base.a[0] == "str" else bytes, name) \
                and not name.startswith("_") and name not in ("maketrans", "fromhex"):
            # the unbound method str.split is the function lambda s: s.split()
            lam = ast.parse(f"lambda _s: _s.{name}()", mode="eval").body
            for sub in ast.walk(lam):
                if node is not None and hasattr(node, "lineno"):
                    ast.copy_location(sub, node)
            ast.fix_missing_locations(lam)
            return self.e_Lambda(lam, st)
        if base.op == "class":
            found = self.repo.lookup(base.a[0])
            if found and found[0] == "class":
                ci: ClassInfo = found[2]
                if ci.enum_kind and name in ci.member_dict():
                    return T("enum", (ci.qualname, name))
                if name in ci.methods:
                    return T("attr", (base, name))
                if name == "__name__":
                    return const(ci.name)
                cv = self._class_attribute(base.a[0], name)
                if cv is not None:
                    return cv
            return T("attr", (base, name))
        if base.op == "enum":
            ci = self.repo.lookup(base.a[0])[2]
            if name == "value":
                return const(ci.member_dict()[base.a[1]])
            if name == "name":
                return const(base.a[1])
            if name in ci.methods and [ast.unparse(d_) for d_ in ci.methods[name].decorator_list] == ["property"] \
                    and len(ci.methods[name].args.args) == 1:
                # a read-only property of an enum class, computed from the member's name / value
                r_ = self.inline_property(ci, ci.methods[name], base, st)
                if r_ is not None:
                    return r_
        if base.op == "global":
            # attribute of an external module / object: extend the dotted name
            if not base.a[0].startswith("pykdebugparser.") and not base.a[0].startswith("?"):
                return T("global", (f"{base.a[0]}.{name}",))
        fmt = self._struct_format(base)
        if fmt is not None:
            # S = struct.Struct(fmt): S.unpack(b) is struct.unpack(fmt, b), S.size is struct.calcsize(fmt)
            if name in ("unpack", "unpack_from", "iter_unpack", "pack", "pack_into"):
                return T("call", (T("global", ("functools.partial",)), (T("global", (f"struct.{name}",)), fmt), ()))
            if name == "size":
                if fmt.op == "const" and isinstance(fmt.a[0], (str, bytes)) and fmt.a[0][:1] in ("<", ">", "=", "!", b"<", b">", b"=", b"!"):
                    import struct as _struct            # standard sizes: the same on every host
                    try:
                        return const(_struct.calcsize(fmt.a[0]))
                    except _struct.error:
                        pass
                return T("call", (T("global", ("struct.calcsize",)), (fmt,), ()))
            if name == "format":
                return fmt
        key = T("attr", (base, name))
        if key in st.heap:
            return st.heap[key]
        nt = self._namedtuple_item(base, name)
        if nt is not None:
            return nt
        if base.op == "new":
            for k, v in base.a[1]:
                if k == name:
                    return v
            cv = self._class_attribute(base.a[0], name)
            if cv is not None:
                return cv
            f_ = self.repo.lookup(base.a[0])
            if f_ and f_[0] == "class" and name in f_[2].methods and [ast.unparse(d_) for d_ in f_[2].methods[name].decorator_list] \
                    == ["property"] and len(f_[2].methods[name].args.args) == 1:
                # a read-only property of a helper object: the value its getter computes from the object
                r_ = self.inline_property(f_[2], f_[2].methods[name], base, st)
                if r_ is not None:
                    return r_
        if base.op == "ite":
            # distribute attribute access over a conditional object when both sides are constructed objects
            if self._namedtuple_item(base.a[1], name) is not None and self._namedtuple_item(base.a[2], name) is not None:
                return T("ite", (base.a[0], self._namedtuple_item(base.a[1], name), self._namedtuple_item(base.a[2], name)))
            if base.a[1].op == "new" or base.a[2].op == "new":
                return T("ite", (base.a[0], self.attr(base.a[1], name, st, None), self.attr(base.a[2], name, st, None)))
        if node is not None:
            self.rec.pops.append(POp("attr", base, name, st.pc, self.loops, self.trys, self.seq(), self.qualname,
                                     node.lineno, node.col_offset))
        return key

    def _constant_members(self, dotted: str):
        """The members of a module-level `NAME = frozenset((...))` / tuple of constants, or the keys of a module-level dict
        literal with constant keys that nothing in its module changes: what `<constant> in NAME` is decided by.  Else None."""
        cache = self.I.__dict__.setdefault("_constant_members_cache", {})
        if dotted in cache:
            return cache[dotted]
        cache[dotted] = None
        found = self.repo.lookup(dotted)
        if not (found and found[0] == "const"):
            return None
        node, mod, name = found[2], found[1], dotted.rsplit(".", 1)[1]
        stores = sum(1 for x in ast.walk(mod.tree) if isinstance(x, ast.Name) and x.id == name and isinstance(x.ctx, (ast.Store, ast.Del)))
        if stores != 1:
            return None
        if isinstance(node, ast.Dict):
            d_ = self._module_dict_literal(dotted)
            if d_ is None:
                # values of any kind: only the keys matter here, and that nothing stores into / deletes from the dict
                if not (node.keys and all(isinstance(k, ast.Constant) for k in node.keys)):
                    return None
                for x in ast.walk(mod.tree):
                    if isinstance(x, (ast.Subscript, ast.Attribute)) and isinstance(x.ctx, (ast.Store, ast.Del)) \
                            and isinstance(x.value, ast.Name) and x.value.id == name:
                        return None
                    if isinstance(x, ast.Call) and isinstance(x.func, ast.Attribute) and x.func.attr in MUTATORS \
                            and isinstance(x.func.value, ast.Name) and x.func.value.id == name:
                        return None
                cache[dotted] = frozenset(k.value for k in node.keys)
            else:
                cache[dotted] = frozenset(k.a[0] for k, _ in d_.a[0])
            return cache[dotted]
        inner = node
        if isinstance(inner, ast.Call) and isinstance(inner.func, ast.Name) and inner.func.id in ("frozenset", "tuple") \
                and len(inner.args) == 1 and not inner.keywords:
            inner = inner.args[0]
        elif isinstance(inner, (ast.List, ast.Set, ast.Call)):
            return None                 # a list / set can be changed by anyone who imports it
        if isinstance(inner, (ast.Tuple, ast.List, ast.Set)) and inner.elts:
            v = consteval.evaluate(self.repo, mod, ast.Tuple(elts=list(inner.elts), ctx=ast.Load()))
            if v is not consteval.UNKNOWN and isinstance(v, tuple) \
                    and all(isinstance(x, (int, str, bytes, float, bool, type(None))) for x in v):
                cache[dotted] = frozenset(v)
        return cache[dotted]

    def _module_dict_literal(self, dotted: str) -> Optional[T]:
        """A module-level `NAME = {'key': function, ...}` of the package that nothing in its module changes afterwards: the
        dict term it evaluates to (constant keys; functions, classes, constants as values)."""
        cache = self.I.__dict__.setdefault("_module_dict_cache", {})
        if dotted in cache:
            return cache[dotted]
        cache[dotted] = None
        found = self.repo.lookup(dotted)
        if not (found and found[0] == "const" and isinstance(found[2], ast.Dict) and found[2].keys and len(found[2].keys) <= 1024
                and all(isinstance(k, ast.Constant) for k in found[2].keys)
                and all(isinstance(v, (ast.Name, ast.Constant)) for v in found[2].values)):
            return None
        name, mod = dotted.rsplit(".", 1)[1], found[1]
        stores = 0
        for x in ast.walk(mod.tree):
            if isinstance(x, ast.Name) and x.id == name and isinstance(x.ctx, (ast.Store, ast.Del)):
                stores += 1
            if isinstance(x, (ast.Subscript, ast.Attribute)) and isinstance(x.ctx, (ast.Store, ast.Del)) \
                    and isinstance(x.value, ast.Name) and x.value.id == name:
                return None
            if isinstance(x, ast.Call) and isinstance(x.func, ast.Attribute) and x.func.attr in MUTATORS \
                    and isinstance(x.func.value, ast.Name) and x.func.value.id == name:
                return None
        if stores != 1:
            return None
        fr_ = _Frame(self.I, mod, None, None, Record(), f"{mod.name}.<module>", self.depth + 1, self.stack)
        v = fr_.eval(found[2], State({}, {}, ()))
        if v.op == "dict" and all(k.op == "const" and _const_tree(x) for k, x in v.a[0]):
            cache[dotted] = v
        return cache[dotted]

    def inline_property(self, ci, fnode, recv: T, st: State) -> Optional[T]:
        self._allow_property = True
        try:
            r = self.inline(ci.module, fnode, ci, (), (), st, f"{ci.qualname}.{fnode.name}", recv=recv)
        finally:
            self._allow_property = False
        self._recv_final = None
        return r

    def _class_attribute(self, qualname: str, name: str, depth: int = 0) -> Optional[T]:
        """A constant class-level attribute (`NAME: ClassVar[str] = 'x'` / `NAME = 'x'`) of a package class or its bases."""
        found = self.repo.lookup(qualname)
        if not found or found[0] != "class" or depth > 4:
            return None
        ci: ClassInfo = found[2]
        for st_ in ci.node.body:
            tgt = val = None
            if isinstance(st_, ast.AnnAssign) and isinstance(st_.target, ast.Name):
                tgt, val = st_.target.id, st_.value
            elif isinstance(st_, ast.Assign) and len(st_.targets) == 1 and isinstance(st_.targets[0], ast.Name):
                tgt, val = st_.targets[0].id, st_.value
            if tgt == name and isinstance(val, ast.Constant):
                return const(val.value)
            if tgt == name and isinstance(val, ast.Attribute) and isinstance(val.value, ast.Name) and (
                    (isinstance(st_, ast.AnnAssign) and "ClassVar" in ast.unparse(st_.annotation))
                    or (isinstance(st_, ast.Assign) and not ci.is_dataclass)):
                # kind: ClassVar[Kind] = Kind.MEMBER
                dn_ = self.repo.dotted(ci.module, val)
                if dn_:
                    owner_, _, member_ = dn_.rpartition(".")
                    f_ = self.repo.lookup(owner_)
                    if f_ and f_[0] == "class" and f_[2].enum_kind and member_ in f_[2].member_dict():
                        return T("enum", (f_[2].qualname, member_))
            if tgt == name and val is not None and not ci.is_dataclass:
                # a namespace class: NAME = <constant expression over module constants>
                v = consteval.evaluate(self.repo, ci.module, val)
                if v is not consteval.UNKNOWN and isinstance(v, (int, str, bytes, float, bool, type(None))):
                    return const(v)
            if tgt == name and val is not None and isinstance(st_, ast.Assign) and isinstance(val, (ast.Tuple, ast.BinOp, ast.Name)) \
                    and not any(isinstance(x, (ast.Call, ast.Lambda, ast.ListComp, ast.GeneratorExp, ast.Attribute, ast.List, ast.Dict))
                                for x in ast.walk(val)):
                # NAME = (('field', format_function), ...): an immutable class-level table (also `_SHARED_ROWS + (row,)`)
                cache = self.I.__dict__.setdefault("_class_table_cache", {})
                if id(val) not in cache:
                    fr_ = _Frame(self.I, ci.module, None, None, Record(), f"{ci.module.name}.<module>", self.depth + 1, self.stack)
                    tv_ = fr_.eval(val, State({}, {}, ()))
                    if tv_.op == "global":
                        f2_ = self.repo.lookup(tv_.a[0])
                        if f2_ and f2_[0] == "const" and isinstance(f2_[2], (ast.Tuple, ast.BinOp)) \
                                and not any(isinstance(x, (ast.Call, ast.Lambda, ast.ListComp, ast.GeneratorExp, ast.Attribute, ast.List,
                                                           ast.Dict)) for x in ast.walk(f2_[2])):
                            tv_ = fr_.eval(f2_[2], State({}, {}, ()))
                    cache[id(val)] = tv_ if (tv_.op == "tuple" and _const_tree(tv_)) else None
                if cache[id(val)] is not None:
                    return cache[id(val)]
        for b in ci.bases:
            r = self._class_attribute(b, name, depth + 1)
            if r is not None:
                return r
        return None

    def eval_index(self, sl, st) -> T:
        if isinstance(sl, ast.Slice):
            return T("sliceidx", (self.eval(sl.lower, st), self.eval(sl.upper, st), self.eval(sl.step, st)))
        return self.eval(sl, st)

    def e_Subscript(self, n, st):
        if isinstance(n.value, ast.Call) and isinstance(n.value.func, ast.Name) and n.value.func.id == "globals" \
                and not n.value.args and not n.value.keywords and "globals" not in st.env and not isinstance(n.slice, ast.Slice):
            # globals()['name']: the module-level object of that name
            key_ = self.eval(n.slice, st)
            if key_.op == "const" and isinstance(key_.a[0], str) and key_.a[0].isidentifier():
                return self.eval(ast.copy_location(ast.Name(id=key_.a[0], ctx=ast.Load()), n), State({}, st.heap, st.pc))
        base = self.eval(n.value, st)
        if isinstance(n.slice, ast.Slice):
            lo, hi, step = self.eval(n.slice.lower, st), self.eval(n.slice.upper, st), self.eval(n.slice.step, st)
            if base.op == "const" and isinstance(base.a[0], (bytes, str, tuple)) and all(is_const(x) for x in (lo, hi, step)):
                try:
                    return const(base.a[0][lo.a[0]:hi.a[0]:step.a[0]])
                except Exception:
                    pass
            if step == NONE:
                return T("slice", (base, lo, hi))
            return T("slice", (base, lo, hi, step))
        idx = self.eval(n.slice, st)
        if idx.op == "call" and idx.a[0] == T("builtin", ("slice",)) and 1 <= len(idx.a[1]) <= 3 and not idx.a[2]:
            # x[slice(stop)] / x[slice(start, stop[, step])] is x[start:stop:step]
            sa = idx.a[1]
            lo, hi, step = (NONE, sa[0], NONE) if len(sa) == 1 else (sa[0], sa[1], sa[2] if len(sa) == 3 else NONE)
            return T("slice", (base, lo, hi)) if step == NONE else T("slice", (base, lo, hi, step))
        key = T("sub", (base, idx))
        if key in st.heap:
            self._old_value_loads(st.heap[key], key, base, idx, st, n)
            return st.heap[key]
        pth = None
        if st.heap:
            pth = T("sub", (self.path_of(n.value, st), idx))
            if pth in st.heap:
                self._old_value_loads(st.heap[pth], pth, base, idx, st, n)
                return st.heap[pth]
        if base.op in ("tuple", "list") and idx.op == "const" and isinstance(idx.a[0], int):
            items = base.a[0]
            if -len(items) <= idx.a[0] < len(items) and not any(i.op == "star" for i in items):
                return items[idx.a[0]]
        if base.op == "global" and base.a[0].startswith("pykdebugparser.") and idx.op == "const" and isinstance(idx.a[0], int) \
                and not isinstance(idx.a[0], bool):
            it_ = self.index_term(base, idx)
            if it_ != T("sub", (base, idx)) and it_.op in ("class", "func", "enum", "const"):
                return it_              # an item of an immutable module-level tuple
        if idx.op == "const" and isinstance(idx.a[0], int) and not isinstance(idx.a[0], bool) and base.op == "slice" \
                and len(base.a) == 3 and base.a[0].op == "attr" and base.a[0].a[1] == "values" and base.a[1].op == "const" \
                and base.a[2].op == "const":
            # record.values[1:][0] is record.values[1] (a record has exactly four words)
            try:
                picked = list(range(VALUES_ARITY))[slice(base.a[1].a[0], base.a[2].a[0])]
                if -len(picked) <= idx.a[0] < len(picked):
                    return T("sub", (base.a[0], const(picked[idx.a[0]])))
            except TypeError:
                pass
        if idx.op == "const" and isinstance(idx.a[0], int):
            nt = self._namedtuple_item(base, idx.a[0])
            if nt is not None:
                return nt
        if base.op == "ite" and idx.op == "const" and isinstance(idx.a[0], int):
            # (a, b) if c else (d, e))[0]  ->  a if c else d   (only when every alternative is a literal sequence)
            def pick(x):
                if x.op == "ite":
                    l, r = pick(x.a[1]), pick(x.a[2])
                    return None if l is None or r is None else T("ite", (x.a[0], l, r))
                if x.op in ("tuple", "list"):
                    items = x.a[0]
                    if -len(items) <= idx.a[0] < len(items) and not any(i.op == "star" for i in items):
                        return items[idx.a[0]]
                return None
            got = pick(base)
            if got is not None:
                return got
        if base.op == "dict" and idx.op == "const":
            for k, v in reversed(base.a[0]):
                if k == idx:
                    return v
        if base.op == "const" and idx.op == "const":
            try:
                v = base.a[0][idx.a[0]]
                if isinstance(v, (int, str, bytes, float, bool, type(None))):
                    return const(v)
            except Exception:
                pass
        if base.op == "global" and idx.op == "const":
            row = self._spec_table_row(base.a[0], idx.a[0])
            if row is not None:
                return row
            if isinstance(idx.a[0], int) and not isinstance(idx.a[0], bool) and base.a[0].startswith("pykdebugparser."):
                # FIELD = (shift, mask) at module level: FIELD[0] is the constant
                f_ = self.repo.lookup(base.a[0])
                if f_ and f_[0] == "const" and isinstance(f_[2], ast.Tuple):
                    v_ = consteval.evaluate(self.repo, f_[1], f_[2])
                    if isinstance(v_, tuple) and -len(v_) <= idx.a[0] < len(v_) \
                            and isinstance(v_[idx.a[0]], (int, str, bytes, float, bool, type(None))):
                        return const(v_[idx.a[0]])
        self.rec.pops.append(POp("sub", base, idx, st.pc, self.loops, self.trys, self.seq(), self.qualname, n.lineno,
                                 n.col_offset, self.path_of(n.value, st)))
        return key

    def _dispatch_call(self, items, key: T, args: tuple, kwargs: tuple, st: State, node) -> T:
        """table[key](args) as the chain `m1(args) if key == K1 else m2(args) if key == K2 else ...`: every alternative is
        interpreted under its own condition, the states are merged."""
        base_pc = st.pc
        cur = st.copy()
        done = []
        for k, v in items:
            cond = T("cmp", ("==", key, k))
            sa = cur.copy()
            sa.pc = cur.pc + ((cond, True),)
            r = self.call(v, args, kwargs, sa, node)
            done.append((cond, r, sa, cur.pc))
            nb = cur.copy()
            nb.pc = cur.pc + ((cond, False),)
            cur = nb
        res_t, res_s = T("unknown", ("no-such-key",)), cur
        for cond, r, sa, pc0 in reversed(done):
            res_s = merge(sa, res_s, cond, pc0)
            res_t = r if r == res_t else T("ite", (cond, r, res_t))
        st.env, st.heap, st.pc = res_s.env, res_s.heap, base_pc
        return res_t

    def _fold_isinstance(self, x: T, c: T) -> Optional[bool]:
        """isinstance(x, C) when the shape of the term decides it (a literal, an object made by a known constructor, a
        function) - None when it does not."""
        if c.op == "tuple":
            rs = [self._fold_isinstance(x, e) for e in c.a[0]]
            if any(r is True for r in rs):
                return True
            return False if all(r is False for r in rs) else None
        kind = None           # what x is: a builtin type name, ('nt', dotted), ('new', qualname), 'function'
        if x.op == "const":
            v = x.a[0]
            if c.op == "builtin" and c.a[0] in ("int", "str", "bytes", "float", "bool", "tuple", "list", "dict", "set", "slice",
                                                 "type"):
                return isinstance(v, {"int": int, "str": str, "bytes": bytes, "float": float, "bool": bool, "tuple": tuple,
                                      "list": list, "dict": dict, "set": set, "slice": slice, "type": type}[c.a[0]])
            if c.op in ("class",) or (c.op == "global" and self.I.namedtuple_fields(c.a[0]) is not None):
                return False
            return None
        if x.op in ("tuple", "list", "dict", "set"):
            kind = x.op
        elif _container_kind(x) is not None:
            kind = _container_kind(x)
        elif _is_record_word(x):
            kind = "int"            # a word of a record: Kevent.values holds the four unsigned integers unpacked from it
        elif x.op == "call" and x.a[0] == T("builtin", ("hex",)):
            kind = "str"
        elif x.op == "comp" and x.a[0] == "list":
            kind = "list"
        elif x.op == "fstr":
            kind = "str"
        elif x.op in ("lambda", "func") or (x.op == "call" and x.a[0] == T("global", ("functools.partial",))):
            kind = "function"
        elif x.op == "call" and x.a[0].op == "builtin" and x.a[0].a[0] in ("slice", "list", "tuple", "dict", "set", "str", "bytes"):
            kind = x.a[0].a[0]
        elif x.op == "call" and x.a[0].op == "global" and self.I.namedtuple_fields(x.a[0].a[0]) is not None:
            kind = ("nt", x.a[0].a[0])
        elif x.op == "new":
            kind = ("new", x.a[0])
        elif x.op == "mut":
            return self._fold_isinstance(x.a[0], c)
        if kind is None:
            return None
        if c.op == "builtin":
            if isinstance(kind, tuple):
                return c.a[0] == "tuple" if kind[0] == "nt" else (False if c.a[0] in ("int", "str", "bytes", "float", "bool", "tuple",
                                                                                      "list", "dict", "set", "slice") else None)
            if kind == "function":
                return False if c.a[0] != "object" else True
            return kind == c.a[0] if c.a[0] in ("int", "str", "bytes", "float", "bool", "tuple", "list", "dict", "set", "slice") else None
        if c.op == "global" and self.I.namedtuple_fields(c.a[0]) is not None:
            return kind == ("nt", c.a[0])
        if c.op == "class":
            if isinstance(kind, tuple) and kind[0] == "new":
                seen, todo = set(), [kind[1]]
                while todo:
                    q = todo.pop()
                    if q == c.a[0]:
                        return True
                    if q in seen:
                        continue
                    seen.add(q)
                    f = self.repo.lookup(q)
                    if f and f[0] == "class":
                        todo.extend(b for b in f[2].bases if b.startswith("pykdebugparser."))
                return False
            return False
        return None

    def _module_object(self, dotted: str) -> Optional[T]:
        """`NAME = Helper(const, ...)` at module level, Helper a plain package class whose methods never store into self after
        __init__ (an immutable description object shared by many callers): the object, built once."""
        found = self.repo.lookup(dotted)
        if not found or found[0] != "const" or not isinstance(found[2], ast.Call) or self.depth >= self.I.inline_depth:
            return None
        cache = self.I.__dict__.setdefault("_module_objects", {})
        if id(found[2]) in cache:
            return cache[id(found[2])]
        cache[id(found[2])] = None
        cdn = self.repo.dotted(found[1], found[2].func)
        cf = self.repo.lookup(cdn) if cdn else None
        if not cf or cf[0] != "class":
            return None
        ci: ClassInfo = cf[2]
        if ci.is_dataclass or ci.enum_kind or "__init__" not in ci.methods or ci.qualname in API_CLASSES \
                or not all(b in ("object", "builtins.object") for b in ci.bases):
            return None
        for mname, m in ci.methods.items():
            if mname == "__init__":
                continue
            for x in ast.walk(m):
                if isinstance(x, (ast.Attribute, ast.Subscript)) and isinstance(x.ctx, (ast.Store, ast.Del)):
                    root = x
                    while isinstance(root, (ast.Attribute, ast.Subscript)):
                        root = root.value
                    if isinstance(root, ast.Name) and root.id == "self":
                        return None
        fr = _Frame(self.I, found[1], None, None, Record(), f"{found[1].name}.<module>", self.depth + 1, self.stack)
        v = fr.eval(found[2], State({}, {}, ()))
        if v.op == "new":
            cache[id(found[2])] = v
        return cache[id(found[2])]

    def _singleton_instance(self, dotted: str) -> Optional[ClassInfo]:
        """`NAME = Cls()` at module level, Cls a package class without state of its own (no __init__, no fields): the class."""
        found = self.repo.lookup(dotted)
        if not found or found[0] != "const" or not isinstance(found[2], ast.Call) or found[2].args or found[2].keywords:
            return None
        cdn = self.repo.dotted(found[1], found[2].func)
        cf = self.repo.lookup(cdn) if cdn else None
        if not cf or cf[0] != "class":
            return None
        ci: ClassInfo = cf[2]
        if ci.is_dataclass or ci.enum_kind or "__init__" in ci.methods or "__new__" in ci.methods or ci.fields:
            return None
        return ci

    def _is_formatter_class(self, ci: ClassInfo, depth: int = 0) -> bool:
        for b in ci.bases:
            if b in ("string.Formatter",):
                return True
            f = self.repo.lookup(b) if b.startswith("pykdebugparser.") else None
            if f and f[0] == "class" and depth < 4 and self._is_formatter_class(f[2], depth + 1):
                return True
        return False

    def _formatter_model(self, ci: ClassInfo, obj: T, name: str, args: tuple, kwargs: tuple, st: State) -> Optional[T]:
        """string.Formatter.format / vformat on an instance of a package subclass: the template (a constant) is split the way
        the standard class splits it; get_value / convert_field / format_field are the subclass's when it overrides them
        (inlined), the documented defaults otherwise.  None when the subclass overrides the splitting itself."""
        import string, _string
        if any(m in ci.methods for m in ("parse", "get_field", "_vformat", "vformat", "format", "check_unused_args")):
            return None
        if not args or args[0].op != "const" or not isinstance(args[0].a[0], str):
            return None
        if name == "vformat":
            if len(args) != 3 or kwargs:
                return None
            pos_t, kw_t = args[1], args[2]
        else:
            if any(a.op == "star" for a in args) or any(k == "**" for k, _ in kwargs):
                return None
            pos_t, kw_t = T("tuple", (tuple(args[1:]),)), T("dict", (tuple((const(k), v) for k, v in kwargs),))
        parts = []
        auto = 0
        try:
            pieces = list(string.Formatter().parse(args[0].a[0]))
        except ValueError:
            return None
        for lit, field_name, spec, conv in pieces:
            if lit:
                parts.append(("lit", lit))
            if field_name is None:
                continue
            if spec and ("{" in spec or "}" in spec):
                return None
            first, rest = _string.formatter_field_name_split(field_name)
            if first == "":
                if auto is None:
                    return None
                first, auto = auto, auto + 1
            elif isinstance(first, int):
                auto = None
            if "get_value" in ci.methods:
                val = self.inline(ci.module, ci.methods["get_value"], ci, (const(first), pos_t, kw_t), (), st,
                                  f"{ci.qualname}.get_value", recv=obj)
            elif isinstance(first, int):
                val = pos_t.a[0][first] if pos_t.op == "tuple" and first < len(pos_t.a[0]) else None
            else:
                val = dict((k.a[0], v) for k, v in kw_t.a[0] if k.op == "const").get(first) if kw_t.op == "dict" else None
            if val is None:
                return None
            for is_attr, key in rest:
                val = self.attr(val, key, st) if is_attr else T("sub", (val, const(key)))
            if "convert_field" in ci.methods:
                val = self.inline(ci.module, ci.methods["convert_field"], ci, (val, const(conv)), (), st,
                                  f"{ci.qualname}.convert_field", recv=obj)
                if val is None:
                    return None
                conv = None
            if "format_field" in ci.methods:
                val = self.inline(ci.module, ci.methods["format_field"], ci, (val, const(spec or "")), (), st,
                                  f"{ci.qualname}.format_field", recv=obj)
                if val is None:
                    return None
                if val.op == "const" and isinstance(val.a[0], str):
                    parts.append(("lit", val.a[0]))
                else:
                    parts.append(("val", val, conv or "", None))
            else:
                parts.append(("val", val, conv or "", const(spec) if spec else None))
        merged = []
        for p_ in parts:
            if p_[0] == "lit" and merged and merged[-1][0] == "lit":
                merged[-1] = ("lit", merged[-1][1] + p_[1])
            else:
                merged.append(p_)
        if all(p_[0] == "lit" for p_ in merged):
            return const("".join(p_[1] for p_ in merged))
        return T("fstr", (tuple(merged),))

    def _spec_table_row(self, dotted: str, key) -> Optional[T]:
        """TABLE['key'] for a module-level dict literal with constant keys that nothing in its module changes afterwards (a
        specification table that decoders are generated from): the row's value, evaluated where the table is defined."""
        found = self.repo.lookup(dotted)
        if not found or found[0] != "const" or self.depth >= self.I.inline_depth:
            return None
        if isinstance(found[2], ast.DictComp) and len(found[2].generators) == 1 and not found[2].generators[0].ifs \
                and isinstance(found[2].generators[0].target, ast.Name) and isinstance(found[2].key, ast.Name) \
                and found[2].key.id == found[2].generators[0].target.id:
            # TABLE = {name: Make(name) for name in ('a', 'b', ...)}: the row of a listed key
            keys = consteval.evaluate(self.repo, found[1], found[2].generators[0].iter)
            nm_ = dotted.rpartition(".")[2]
            stores = sum(1 for x in ast.walk(found[1].tree) if isinstance(x, ast.Name) and x.id == nm_ and isinstance(x.ctx, ast.Store))
            mutated = any(isinstance(x, (ast.Subscript, ast.Attribute)) and isinstance(x.ctx, (ast.Store, ast.Del))
                          and isinstance(x.value, ast.Name) and x.value.id == nm_ for x in ast.walk(found[1].tree))
            if isinstance(keys, (tuple, list)) and key in keys and stores == 1 and not mutated:
                cache = self.I.__dict__.setdefault("_table_cache", {})
                ck = (id(found[2]), key)
                if ck not in cache:
                    fr = _Frame(self.I, found[1], self.fnode, None, Record(), f"{found[1].name}.<module>", self.depth + 1, self.stack)
                    cache[ck] = fr.eval(found[2].value, State({found[2].key.id: const(key)}, {}, ()))
                return cache[ck]
            return None
        if not isinstance(found[2], ast.Dict):
            built = self.I.computed_table(found[1], dotted.rpartition(".")[2])
            if built is not None:
                for k, v in reversed(built.a[0]):
                    if k.op == "const" and type(k.a[0]) is type(key) and k.a[0] == key:
                        return v
            return None
        node, hmod = found[2], found[1]
        name = dotted.rpartition(".")[2]
        frozen = self.I.__dict__.setdefault("_frozen_tables", {})
        fk = (hmod.name, name)
        if fk not in frozen:
            ok = all(isinstance(k, ast.Constant) for k in node.keys)
            stores = 0
            for x in ast.walk(hmod.tree):
                if isinstance(x, ast.Name) and x.id == name and isinstance(x.ctx, ast.Store):
                    stores += 1
                if isinstance(x, (ast.Subscript, ast.Attribute)) and isinstance(x.ctx, (ast.Store, ast.Del)) \
                        and isinstance(x.value, ast.Name) and x.value.id == name:
                    ok = False
                if isinstance(x, ast.Call) and isinstance(x.func, ast.Attribute) and x.func.attr in MUTATORS \
                        and isinstance(x.func.value, ast.Name) and x.func.value.id == name:
                    ok = False
                if isinstance(x, ast.AugAssign) and isinstance(x.target, ast.Name) and x.target.id == name:
                    ok = False
            frozen[fk] = ok and stores == 1
        if not frozen[fk]:
            return None
        hit = None
        for k, v in zip(node.keys, node.values):
            if type(k.value) is type(key) and k.value == key:
                hit = v
        if hit is None:
            return None
        cache = self.I.__dict__.setdefault("_table_cache", {})
        if id(hit) not in cache:
            fr = _Frame(self.I, hmod, self.fnode, None, Record(), f"{hmod.name}.<module>", self.depth + 1, self.stack)
            v = fr.eval(hit, State({}, {}, ()))
            cache[id(hit)] = v
        return cache[id(hit)]

    def _old_value_loads(self, v: T, key: T, base: T, idx: T, st: State, n) -> None:
        """A stored item read back: on the branches where nothing was stored the load is the original partial
        operation - record it under those branch conditions."""
        def go(x, pc):
            if x == key:
                self.rec.pops.append(POp("sub", base, idx, pc, self.loops, self.trys, self.seq(), self.qualname,
                                         n.lineno, n.col_offset, key.a[0]))
            elif x.op == "ite":
                go(x.a[1], pc + ((x.a[0], True),))
                go(x.a[2], pc + ((x.a[0], False),))
        go(v, st.pc)

    def e_Tuple(self, n, st):
        return T("tuple", (tuple(self.eval_elts(n.elts, st)),))

    def e_List(self, n, st):
        return T("list", (tuple(self.eval_elts(n.elts, st)),))

    def e_Set(self, n, st):
        return T("set", (tuple(self.eval_elts(n.elts, st)),))

    def eval_elts(self, elts, st):
        out = []
        for e in elts:
            if isinstance(e, ast.Starred):
                out.extend(self.expand_star(self.eval(e.value, st), None))
            else:
                out.append(self.eval(e, st))
        return out

    def expand_star(self, v: T, want: Optional[int]) -> List[T]:
        """Expand ``*v`` into positional terms when the length is known."""
        if v.op in ("tuple", "list") and not any(i.op == "star" for i in v.a[0]):
            return list(v.a[0])
        if v.op == "call" and v.a[0].op == "builtin" and v.a[0].a[0] in ("tuple", "list") and len(v.a[1]) == 1 and not v.a[2] \
                and v.a[1][0].op in ("tuple", "list", "mut"):
            inner_ = self.expand_star(v.a[1][0], want)       # *tuple(xs) hands over what *xs does
            if not any(i.op == "star" for i in inner_):
                return inner_
        if v.op == "attr" and v.a[1] == "values":
            return [T("sub", (v, const(i))) for i in range(VALUES_ARITY)]
        if v.op == "slice" and v.a[0].op == "attr" and v.a[0].a[1] == "values" and len(v.a) == 3:
            lo, hi = v.a[1], v.a[2]
            if lo.op == "const" and hi.op == "const":
                lo_v = 0 if lo.a[0] is None else lo.a[0]
                hi_v = VALUES_ARITY if hi.a[0] is None else hi.a[0]
                if isinstance(lo_v, int) and isinstance(hi_v, int):
                    idx = list(range(VALUES_ARITY))[lo_v:hi_v]
                    return [T("sub", (v.a[0], const(i))) for i in idx]
        if v.op == "mut":
            # a local list filled by unconditional append / extend calls, in order: [*a, b, *c]
            chain = []
            cur = v
            while cur.op == "mut" and cur.a[1] in ("append", "extend") and len(cur.a[2]) == 1 and len(cur.a) == 3:
                chain.append((cur.a[1], cur.a[2][0]))
                cur = cur.a[0]
            if cur.op == "list" and chain and not any(i.op == "star" for i in cur.a[0]):
                out = list(cur.a[0])
                for kind, x in reversed(chain):
                    out.extend([x] if kind == "append" else self.expand_star(x, None))
                return out
        return [T("star", (v,))]

    def e_Dict(self, n, st):
        items = []
        for k, v in zip(n.keys, n.values):
            if k is None:
                sv_ = self.eval(v, st)
                if sv_.op == "dict" and all(kk_.op == "const" for kk_, _ in sv_.a[0]):
                    for kk_, vv_ in sv_.a[0]:        # **{'k': v}: its pairs, a repeated key keeps its place and takes the value
                        at_ = [i_ for i_, (k0_, _) in enumerate(items) if k0_ == kk_]
                        if at_:
                            items[at_[0]] = (kk_, vv_)
                        else:
                            items.append((kk_, vv_))
                    continue
                items.append((T("unknown", ("dict-splat",)), sv_))
            else:
                items.append((self.eval(k, st), self.eval(v, st)))
        return T("dict", (tuple(items),))

    def e_JoinedStr(self, n, st):
        parts = []
        for v in n.values:
            if isinstance(v, ast.Constant):
                parts.append(("lit", str(v.value)))
            elif isinstance(v, ast.FormattedValue):
                val = self.eval(v.value, st)
                conv = {-1: "", 115: "s", 114: "r", 97: "a"}.get(v.conversion, "")
                spec = self.eval(v.format_spec, st) if v.format_spec is not None else None
                if spec is not None and spec.op == "fstr" and all(p[0] == "lit" for p in spec.a[0]):
                    spec = const("".join(p[1] for p in spec.a[0]))
                if val.op == "const" and isinstance(val.a[0], str) and not conv and spec is None:
                    parts.append(("lit", val.a[0]))
                else:
                    parts.append(("val", val, conv, spec))
        merged = []
        for p in parts:
            if p[0] == "lit" and merged and merged[-1][0] == "lit":
                merged[-1] = ("lit", merged[-1][1] + p[1])
            else:
                merged.append(p)
        if all(p[0] == "lit" for p in merged):
            return const("".join(p[1] for p in merged))
        return T("fstr", (tuple(merged),))

    def e_FormattedValue(self, n, st):
        return self.eval(n.value, st)

    def e_BinOp(self, n, st):
        return self.binop(_BINOPS.get(type(n.op), "?"), self.eval(n.left, st), self.eval(n.right, st))

    def binop(self, op: str, l: T, r: T) -> T:
        if l.op == "const" and r.op == "const":
            v = _fold_bin(op, l.a[0], r.a[0])
            if v is not None:
                return const(v)
        if op == "+" and l.op == r.op and l.op in ("list", "tuple") and not any(i.op == "star" for i in l.a[0] + r.a[0]):
            return T(l.op, (l.a[0] + r.a[0],))          # [a] + [b] is [a, b]
        if op == "%" and l.op == "const" and isinstance(l.a[0], str):
            fs = _percent_to_fstr(l.a[0], r)
            if fs is not None:
                return fs
        return T("bin", (op, l, r))

    def e_UnaryOp(self, n, st):
        v = self.eval(n.operand, st)
        if isinstance(n.op, ast.Not):
            tv = truth(v)
            if tv is not None:
                return const(not tv)
            return T("not", (v,))
        op = _UNOPS[type(n.op)]
        if v.op == "const" and isinstance(v.a[0], (int, float)):
            return const({"-": lambda x: -x, "+": lambda x: +x, "~": lambda x: ~x}[op](v.a[0]))
        return T("un", (op, v))

    def e_BoolOp(self, n, st):
        opname = "and" if isinstance(n.op, ast.And) else "or"
        items = []
        base_pc = st.pc
        sub = st
        for i, v in enumerate(n.values):
            t = self.eval(v, sub)
            tv = truth(t)
            if tv is not None:
                if (opname == "and" and tv is False) or (opname == "or" and tv is True):
                    items.append(t)
                    break
                if i < len(n.values) - 1:
                    continue     # neutral element, drop
            items.append(t)
            if i < len(n.values) - 1:
                sub = State(sub.env, sub.heap, sub.pc + ((t, opname == "and"),))
        st.pc = base_pc
        if not items:
            return const(opname == "and")
        if opname == "and":
            # `k in d and d[k] == c` (c a constant other than None) is `d.get(k) == c`
            i = 0
            while i + 1 < len(items):
                m, c = items[i], items[i + 1]
                if m.op == "cmp" and m.a[0] == "in" and c.op == "cmp" and c.a[0] == "==" \
                        and c.a[1] == T("sub", (m.a[2], m.a[1])) and c.a[2].op == "const" and c.a[2].a[0] is not None \
                        and m.a[2].op not in ("tuple", "list", "set", "const"):
                    items[i:i + 2] = [T("cmp", ("==", T("call", (T("attr", (m.a[2], "get")), (m.a[1],), ())), c.a[2]))]
                else:
                    i += 1
        if len(items) == 1:
            return items[0]
        return T("bool", (opname, tuple(items)))

    def e_Compare(self, n, st):
        left = self.eval(n.left, st)
        parts = []
        for op, cmp_ in zip(n.ops, n.comparators):
            right = self.eval(cmp_, st)
            opname = _CMPOPS[type(op)]
            folded = None
            if opname in ("in", "not in") and right.op == "global" and self.I.memo_mode(right.a[0]) is not None:
                folded = (self.I.memo_mode(right.a[0])[0] == "hit") == (opname == "in")
            elif left.op == "const" and right.op == "const":
                folded = _fold_cmp(opname, left.a[0], right.a[0])
            elif right.op in ("tuple", "list") and opname in ("in", "not in") and not right.a[0]:
                folded = opname == "not in"
            elif right.op in ("tuple", "list", "set") and opname in ("in", "not in") and left.op in ("class", "func", "enum") \
                    and all(x.op in ("class", "func", "enum", "const") for x in right.a[0]):
                # a class / function / member looked for in a literal collection of such objects: decided by identity
                folded = (left in right.a[0]) == (opname == "in")
            elif opname in ("in", "not in") and left.op == "const" and right.op == "global" \
                    and right.a[0].startswith("pykdebugparser."):
                members_ = self._constant_members(right.a[0])
                if members_ is not None:
                    try:
                        folded = (left.a[0] in members_) == (opname == "in")
                    except TypeError:
                        folded = None
            if folded is None and opname in ("is", "is not") and NONE in (left, right):
                other = right if left == NONE else left
                if _never_none(other):
                    folded = opname == "is not"
                elif _is_record_word(other) or other.op in ("bin", "fstr", "list", "tuple", "dict", "set", "comp", "new", "lambda", "func", "class", "enum") \
                        or (other.op == "const" and other.a[0] is not None) \
                        or (other.op == "call" and other.a[0].op == "builtin" and other.a[0].a[0] in _CONSTRUCTORS) \
                        or (other.op == "call" and other.a[0].op == "global" and self.I.namedtuple_fields(other.a[0].a[0]) is not None):
                    folded = opname == "is not"         # the result of arithmetic / a literal / an object is never None
            if folded is None and opname in ("is", "is not"):
                # `(KNOWN if c else Fresh(...)) is KNOWN` with KNOWN a module-level object: c - an object built on the spot is
                # never the one that already existed
                for i_, g_ in ((left, right), (right, left)):
                    if i_.op == "ite" and g_.op == "global" and g_.a[0].startswith("pykdebugparser."):
                        def same_(x_):
                            if x_ == g_:
                                return True
                            if x_.op in ("new", "list", "dict", "set", "fstr", "comp") or (
                                    x_.op == "call" and x_.a[0].op in ("class",)) or (
                                    x_.op == "call" and x_.a[0].op == "global" and self.I.namedtuple_fields(x_.a[0].a[0]) is not None):
                                return False
                            return None
                        sa_, sb_ = same_(i_.a[1]), same_(i_.a[2])
                        if sa_ is not None and sb_ is not None and sa_ != sb_:
                            c_ = i_.a[0] if sa_ else T("not", (i_.a[0],))
                            folded = c_ if opname == "is" else T("not", (c_,))
                            break
                if folded is not None:
                    parts.append(folded)
                    left = right
                    continue
                # `d.get(k, SENTINEL) is SENTINEL` (SENTINEL = object() at module level, never stored) is `k not in d`
                for g_, s_ in ((left, right), (right, left)):
                    if self._is_sentinel(s_) and g_.op == "call" and g_.a[0].op == "attr" and g_.a[0].a[1] == "get" \
                            and len(g_.a[1]) == 2 and g_.a[1][1] == s_ and not g_.a[2]:
                        folded = T("cmp", ("not in" if opname == "is" else "in", g_.a[1][0], g_.a[0].a[0]))
                if folded is not None:
                    parts.append(folded)
                    left = right
                    continue
            parts.append(const(folded) if folded is not None else T("cmp", (opname, left, right)))
            left = right
        if len(parts) == 1:
            return parts[0]
        vals = [truth(p) for p in parts]
        if any(v is False for v in vals):
            return FALSE
        parts = [p for p, v in zip(parts, vals) if v is None]
        if not parts:
            return TRUE
        if len(parts) == 1:
            return parts[0]
        return T("bool", ("and", tuple(parts)))

    def e_IfExp(self, n, st):
        test = self.eval(n.test, st)
        tv = truth(test)
        if tv is True:
            return self.eval(n.body, st)
        if tv is False:
            return self.eval(n.orelse, st)
        base_pc = st.pc
        sa = State(st.env, st.heap, base_pc + ((test, True),))
        a = self.eval(n.body, sa)
        sb = State(st.env, st.heap, base_pc + ((test, False),))
        b = self.eval(n.orelse, sb)
        if a == b:
            return a
        return get_form(test, a, b) or T("ite", (test, a, b))

    def e_Lambda(self, n, st):
        key = self.I.fresh()
        self.I.lambdas[key] = (n, dict(st.env), self.mod, self.self_cls, "lambda")
        # body evaluated once with its parameters bound symbolically, so that captured values are visible
        inner = State(dict(st.env), st.heap, st.pc)
        a = n.args
        for p_ in a.posonlyargs + a.args + a.kwonlyargs:
            inner.env[p_.arg] = T("bound", (p_.arg, key))
        saved = (len(self.rec.pops), len(self.rec.calls), len(self.rec.effects))
        body = self.eval(n.body, inner)
        if not (a.posonlyargs or a.args or a.kwonlyargs or a.vararg or a.kwarg):
            # a thunk (`iter(lambda: reader.read(64), b'')`): defining it runs nothing - what its body reads, calls or stores
            # is recorded when (and where) it is called.  (Bodies of lambdas with parameters stay recorded at the definition:
            # the stage that applies them per element is where the rules look for them.)
            del self.rec.pops[saved[0]:]
            del self.rec.calls[saved[1]:]
            del self.rec.effects[saved[2]:]
        return T("lambda", (key, body))

    def e_NamedExpr(self, n, st):
        v = self.eval(n.value, st)
        self.bind(n.target, v, st, n, record=False)
        return v

    def e_Starred(self, n, st):
        return T("star", (self.eval(n.value, st),))

    def e_Yield(self, n, st):
        self.is_generator = True
        v = self.eval(n.value, st) if n.value is not None else NONE
        cb = getattr(self, "on_yield", None)
        if cb is not None:
            cb(v, st)               # this generator drives a `for` loop of its caller: the loop body runs here
            return T("unknown", ("sent",))
        self.rec.returns.append(Ret("yield", v, st.pc, self.loops, self.seq(), self.qualname, n.lineno))
        return T("unknown", ("sent",))

    def _yield_from_loop(self, n, st) -> Optional[list]:
        """`yield from <generator expression / map(...) / iter(f, sentinel)>` as `for y in <it>: yield y`."""
        src = n.value
        if not isinstance(src, ast.GeneratorExp):
            if not (isinstance(src, ast.Call) and isinstance(src.func, ast.Name) and src.func.id in ("map", "iter", "filter")
                    and src.func.id not in st.env):
                return None
        uid = self.I.fresh()
        loop = ast.For(target=ast.Name(id=f"__yf{uid}", ctx=ast.Store()), iter=src,
                       body=[ast.Expr(value=ast.Yield(value=ast.Name(id=f"__yf{uid}", ctx=ast.Load())))], orelse=[])
        for x in ast.walk(loop):
            if not hasattr(x, "lineno"):
                ast.copy_location(x, n)
        ast.fix_missing_locations(loop)
        return [loop]

    def e_YieldFrom(self, n, st):
        self.is_generator = True
        v = self.eval(n.value, st)
        if self._expand_generator(v, st):
            return T("unknown", ("sent",))
        if ((v.op == "call" and v.a[0].op == "builtin" and v.a[0].a[0] in ("map", "filter", "iter") and not v.a[2])
                or (v.op == "comp" and v.a[0] in ("gen", "list") and v in self.I.__dict__.get("_comp_src", {})
                    and not isinstance(n.value, (ast.GeneratorExp, ast.ListComp)))) \
                and not getattr(n, "_as_loop", False):
            # the operand EVALUATES to a lazy pipeline (a helper returned `map(decode, iter(read, b''))`): the same loop as
            # when it is written in place
            uid = self.I.fresh()
            st.env[f"__yfv{uid}"] = v
            loop = ast.For(target=ast.Name(id=f"__yf{uid}", ctx=ast.Store()), iter=ast.Name(id=f"__yfv{uid}", ctx=ast.Load()),
                           body=[ast.Expr(value=ast.Yield(value=ast.Name(id=f"__yf{uid}", ctx=ast.Load())))], orelse=[])
            for x in ast.walk(loop):
                ast.copy_location(x, n)
            ast.fix_missing_locations(loop)
            out = self.exec_block([loop], st)
            if out is not None:
                st.env, st.heap, st.pc = out.env, out.heap, out.pc
            return T("unknown", ("sent",))
        self.rec.returns.append(Ret("yield_from", v, st.pc, self.loops, self.seq(), self.qualname, n.lineno))
        return T("unknown", ("sent",))

    def _expand_generator(self, v: T, st: State) -> bool:
        """`yield from helper(args)` where helper is a generator function of the package: its yields, effects and loops
        are those of this generator, in place."""
        if v.op != "call" or self.depth >= self.I.inline_depth:
            return False
        f, args, kwargs = v.a
        target = None
        if f.op == "func":
            found = self.repo.lookup(f.a[0])
            if found and found[0] == "func":
                target = (found[1], found[2], None, None, f.a[0])
        elif f.op == "attr" and f.a[0].op == "param" and f.a[0].a[0] in ("self", "cls") and self.self_cls is not None \
                and f.a[1] in self.self_cls.methods:
            target = (self.self_cls.module, self.self_cls.methods[f.a[1]], self.self_cls, f.a[0],
                      f"{self.self_cls.qualname}.{f.a[1]}")
        if target is None:
            return False
        mod, fnode, cls, recv, qn = target
        if id(fnode) in self.stack or not any(isinstance(x, (ast.Yield, ast.YieldFrom)) for x in ast.walk(fnode)):
            return False
        if any(a.op == "star" for a in args) or any(k == "**" for k, _ in kwargs):
            return False
        fr = _Frame(self.I, mod, fnode, cls, self.rec, qn, self.depth + 1, self.stack + (id(fnode),),
                    base_pc=st.pc, base_loops=self.loops, base_trys=self.trys)
        pos = list(args)
        is_static = any(ast.unparse(d) == "staticmethod" for d in fnode.decorator_list)
        if cls is not None and not is_static:
            pos.insert(0, recv)
        cs = fr.bind_params({}, symbolic_missing=False, positional=tuple(pos), kwargs=kwargs)
        cs.heap = st.heap
        fr.expanded_generator = True
        fr.exec_block(fnode.body, cs)
        return True

    def _comp_over_table(self, kind, n, elt_nodes, st) -> Optional[T]:
        """[f(a, b) for a, b in TABLE] over a literal table of constants (a module-level tuple, a local literal) with no
        condition is the literal list of its items: [f(a0, b0), f(a1, b1), ...]."""
        if len(n.generators) != 1 or n.generators[0].is_async or kind == "set":
            return None
        g = n.generators[0]
        if g.ifs and kind not in ("list", "gen"):
            return None
        inline = isinstance(g.iter, (ast.Tuple, ast.List)) and 0 < len(g.iter.elts) <= 16 \
            and not any(isinstance(e, ast.Starred) for e in g.iter.elts)
        enumerated = isinstance(g.iter, ast.Call) and isinstance(g.iter.func, ast.Name) and g.iter.func.id == "enumerate" \
            and len(g.iter.args) == 1 and not g.iter.keywords and isinstance(g.iter.args[0], ast.Name) \
            and "enumerate" not in st.env
        attr_table = isinstance(g.iter, ast.Attribute) and isinstance(g.iter.value, ast.Name) and g.iter.value.id in ("self", "cls")
        derived = self._derived_rows(g.iter, st) if kind in ("dict", "list", "gen") and not g.ifs else None
        if derived is not None:
            # the names of an enum class / the keys, values or pairs of a module-level dict literal: a constant table of rows
            out_ = []
            for item in derived:
                inner = State(dict(st.env), st.heap, st.pc)
                self.bind(g.target, item, inner, n, record=False)
                elts = tuple(self.eval(e, inner) for e in elt_nodes)
                out_.append(elts[0] if len(elts) == 1 else T("tuple", (elts,)))
            if kind == "dict":
                return T("dict", (tuple((o.a[0][0], o.a[0][1]) for o in out_),))
            return T("list", (tuple(out_),))
        if not inline and not isinstance(g.iter, ast.Name) and not enumerated and not attr_table \
                and not (isinstance(g.iter, ast.Call) and isinstance(g.iter.func, ast.Name)
                         and g.iter.func.id == "range" and 1 <= len(g.iter.args) <= 3):
            return None
        saved = (len(self.rec.pops), len(self.rec.calls), len(self.rec.effects))
        items = self.eval(g.iter.args[0] if enumerated else g.iter, st)
        module_rows = False
        if items.op == "tuple" and not items.a[0] and kind in ("list", "gen", "dict"):
            # a comprehension over the empty tuple (a default argument `decoders=()`) builds nothing
            del self.rec.pops[saved[0]:]
            del self.rec.calls[saved[1]:]
            del self.rec.effects[saved[2]:]
            return T("list", ((),)) if kind != "dict" else T("dict", ((),))
        if items.op == "call" and items.a[0] == T("builtin", ("range",)) and 1 <= len(items.a[1]) <= 3 and not items.a[2] \
                and all(a_.op == "const" and isinstance(a_.a[0], int) and not isinstance(a_.a[0], bool) for a_ in items.a[1]):
            try:
                rng = range(*[a_.a[0] for a_ in items.a[1]])
            except ValueError:
                rng = None
            if rng is not None and len(rng) <= 16:
                if len(rng) == 0:
                    del self.rec.pops[saved[0]:]
                    del self.rec.calls[saved[1]:]
                    del self.rec.effects[saved[2]:]
                    return T("list", ((),)) if kind != "dict" else T("dict", ((),))
                items = T("tuple", (tuple(const(i) for i in rng),))
        def _ref_tree(t_):
            # constants and references to library objects (`socket.AddressFamily`)
            return _const_tree(t_) or (t_.op == "global" and not t_.a[0].startswith(("pykdebugparser.", "?"))) \
                or (t_.op == "tuple" and all(_ref_tree(x_) for x_ in t_.a[0]))
        if items.op == "global":
            found = self.repo.lookup(items.a[0])
            if found and found[0] == "const" and isinstance(found[2], (ast.Tuple, ast.List)) and found[2].elts \
                    and len(found[2].elts) <= 64 and all(_literal_seq(e) for e in found[2].elts):
                items = self.eval(found[2], st)
            elif found and found[0] == "const" and isinstance(found[2], ast.Tuple) and 0 < len(found[2].elts) <= 16 \
                    and (enumerated or all(isinstance(e, ast.Name) for e in found[2].elts)) \
                    and all(isinstance(e, (ast.Name, ast.Attribute)) for e in found[2].elts):
                # a module-level tuple of callables (`(socket.AddressFamily, socket.SocketKind)`) paired with positions
                fr_ = _Frame(self.I, found[1], self.fnode, None, Record(), f"{found[1].name}.<module>", self.depth + 1, self.stack)
                tv_ = fr_.eval(found[2], State({}, {}, ()))
                if tv_.op == "tuple" and all(_ref_tree(x_) and x_.op != "tuple" for x_ in tv_.a[0]):
                    items = tv_
                    module_rows = True
            elif found and found[0] == "const" and isinstance(found[2], ast.Tuple) and found[2].elts \
                    and len(found[2].elts) <= 64 and all(isinstance(e, ast.Tuple) and _table_row(e) for e in found[2].elts) \
                    and self.depth < self.I.inline_depth:
                # an immutable module-level table of rows (`(Enum.MEMBER, 'method_name')`, `(key, function)`): evaluated where
                # it is defined
                cache = self.I.__dict__.setdefault("_table_cache", {})
                if id(found[2]) not in cache:
                    fr_ = _Frame(self.I, found[1], self.fnode, None, Record(), f"{found[1].name}.<module>", self.depth + 1, self.stack)
                    cache[id(found[2])] = fr_.eval(found[2], State({}, {}, ()))
                if cache[id(found[2])].op == "tuple" and all(r_.op == "tuple" for r_ in cache[id(found[2])].a[0]):
                    items = cache[id(found[2])]
                    module_rows = True
        # a literal written in the comprehension itself is evaluated once, in order, before the first iteration: its
        # items need not be constants
        it_name = g.iter.args[0] if enumerated else g.iter
        local_tuple = isinstance(it_name, ast.Name) and it_name.id in st.env and items.op == "tuple" \
            and not any(i.op == "star" for i in items.a[0])     # an (immutable) tuple built earlier in this function
        flat_members = items.op in ("tuple", "list") and items.a[0] and all(i.op == "enum" for i in items.a[0])
        if enumerated and not flat_members and items.op == "tuple" and items.a[0] and len(items.a[0]) <= 64 \
                and (local_tuple or module_rows or all(_const_tree(i) for i in items.a[0])):
            items = T("tuple", (tuple(T("tuple", ((const(i_), x_),)) for i_, x_ in enumerate(items.a[0])),))
            local_tuple = True
        elif enumerated:
            flat_members = True          # not unrolled
        if flat_members or not (items.op in ("tuple", "list") and items.a[0] and len(items.a[0]) <= 64
                                and (inline or local_tuple or module_rows or all(_const_tree(i) for i in items.a[0]))):
            # (a flat tuple of enum members stays a loop over members: that is the form the flag rules judge, C11)
            del self.rec.pops[saved[0]:]
            del self.rec.calls[saved[1]:]
            del self.rec.effects[saved[2]:]
            return None
        out = []
        acc = T("list", ((),))
        for item in items.a[0]:
            inner = State(dict(st.env), st.heap, st.pc)
            self.bind(g.target, item, inner, n, record=False)
            conds = []
            dropped = False
            for c in g.ifs:
                ct = self.eval(c, inner)
                tv_ = truth(ct)
                if tv_ is True:
                    continue            # settled for this item
                if tv_ is False:
                    dropped = True
                    break
                conds.append(ct)
                inner.pc = inner.pc + ((ct, True),)
            if dropped:
                continue
            elts = tuple(self.eval(e, inner) for e in elt_nodes)
            one = elts[0] if len(elts) == 1 else T("tuple", (elts,))
            out.append(one)
            if g.ifs:
                # kept items in order: the list the equivalent `if c: acc.append(x)` statements build
                nxt = T("list", (acc.a[0] + (one,),)) if (acc.op == "list" and not conds) else T("mut", (acc, "append", (one,)))
                for ct in reversed(conds):
                    nxt = T("ite", (ct, nxt, acc))
                acc = nxt
        if g.ifs:
            return acc
        if kind == "dict":
            return T("dict", (tuple((o.a[0][0], o.a[0][1]) for o in out),))
        return T("list", (tuple(out),))

    def _derived_rows(self, it, st):
        """Rows of `for x in E.__members__` (the member names, aliases included), `for m in E.__members__.values()`, and of
        `for v in D.values()` / `D.keys()` / `D.items()` / `for k in D` with D a module-level dict literal of at most 64
        constant-keyed entries of this package; None for anything else."""
        node, how = it, "keys"
        if isinstance(it, ast.Call) and isinstance(it.func, ast.Attribute) and it.func.attr in ("values", "keys", "items") \
                and not it.args and not it.keywords:
            node, how = it.func.value, it.func.attr
        if isinstance(node, ast.Attribute) and node.attr == "__members__":
            dn = self.repo.dotted(self.mod, node.value)
            f_ = self.repo.lookup(dn) if dn else None
            if f_ and f_[0] == "class" and f_[2].enum_kind and 0 < len(f_[2].members) <= 64:
                names = [nm for nm, _ in f_[2].members]
                members = [T("enum", (f_[2].qualname, nm)) for nm in names]
                if how == "keys":
                    return [const(nm) for nm in names]
                if how == "values":
                    return members
                return [T("tuple", ((const(nm), m),)) for nm, m in zip(names, members)]
            return None
        if isinstance(node, ast.Name) and node.id not in st.env and how == "keys" and node is it:
            dn = self.repo.dotted(self.mod, node)
            f_ = self.repo.lookup(dn) if dn else None
            if f_ and f_[0] == "class" and f_[2].enum_kind in ("Enum", "IntEnum") and 0 < len(f_[2].members) <= 64 \
                    and self.qualname.endswith(".<module>"):
                # iterating the class (in module-level table building): its members in definition order, a second name of a
                # value (an alias) left out
                seen_, rows_ = set(), []
                for nm, val in f_[2].members:
                    if val in seen_:
                        continue
                    seen_.add(val)
                    rows_.append(T("enum", (f_[2].qualname, nm)))
                return rows_
        if isinstance(node, ast.Name) and node.id not in st.env:
            dn = self.repo.dotted(self.mod, node)
            f_ = self.repo.lookup(dn) if dn else None
            if f_ and f_[0] == "const" and isinstance(f_[2], ast.Dict) and 0 < len(f_[2].keys) <= 64 \
                    and all(isinstance(k, ast.Constant) for k in f_[2].keys):
                fr_ = _Frame(self.I, f_[1], self.fnode, None, Record(), f"{f_[1].name}.<module>", self.depth + 1, self.stack)
                tv_ = fr_.eval(f_[2], State({}, {}, ()))
                if tv_.op == "dict" and all(v.op in ("class", "func", "enum", "const", "global") for _, v in tv_.a[0]):
                    if how == "keys":
                        return [k for k, _ in tv_.a[0]]
                    if how == "values":
                        return [v for _, v in tv_.a[0]]
                    return [T("tuple", ((k, v),)) for k, v in tv_.a[0]]
        return None

    def _comp(self, kind, n, elt_nodes, st):
        unrolled = self._comp_over_table(kind, n, elt_nodes, st)
        if unrolled is not None:
            return unrolled
        cid = self.I.fresh()
        inner = State(dict(st.env), st.heap, st.pc)
        gens = []
        self.rec.loops[cid] = LoopRec(cid, "comp", None, None, self.qualname, n.lineno,
                                      parent=self.loops[-1] if self.loops else None)
        old_loops = self.loops
        self.loops = self.loops + (cid,)
        for g in n.generators:
            it = self.eval(g.iter, inner)
            if self.rec.loops[cid].iter is None:
                self.rec.loops[cid].iter = it
            elem = T("elem", (it, cid))
            self.bind(g.target, elem, inner, n, record=False)
            conds = []
            for c in g.ifs:
                ct = self.eval(c, inner)
                conds.append(ct)
                inner.pc = inner.pc + ((ct, True),)
            gens.append((elem, it, tuple(conds)))
        elts = tuple(self.eval(e, inner) for e in elt_nodes)
        self.loops = old_loops
        elt = elts[0] if len(elts) == 1 else T("tuple", (elts,))
        res = T("comp", (kind, elt, tuple(gens)))
        self.rec.loops[cid].term = res
        if kind in ("list", "gen") and len(n.generators) == 1 and not n.generators[0].ifs \
                and not any(isinstance(x, (ast.Lambda, ast.ListComp, ast.GeneratorExp, ast.SetComp, ast.DictComp, ast.NamedExpr,
                                           ast.Yield, ast.YieldFrom, ast.Await)) for x in ast.walk(n) if x is not n):
            # remembered so that a loop over this value elsewhere can be interpreted as the loop over its source
            self.I.__dict__.setdefault("_comp_src", {})[res] = (n, dict(st.env), self.mod, self.self_cls)
        return res

    def e_ListComp(self, n, st):
        return self._comp("list", n, [n.elt], st)

    def e_GeneratorExp(self, n, st):
        return self._comp("gen", n, [n.elt], st)

    def e_SetComp(self, n, st):
        return self._comp("set", n, [n.elt], st)

    def e_DictComp(self, n, st):
        return self._comp("dict", n, [n.key, n.value], st)

    # --------------------------------------------------------------------- calls
    def e_Call(self, n, st):
        prev_callee = getattr(self, "_callee", None)
        self._callee = n.func
        func = self.eval(n.func, st)
        self._callee = prev_callee
        args: List[T] = []
        for a in n.args:
            if isinstance(a, ast.Starred):
                args.extend(self.expand_star(self.eval(a.value, st), None))
            else:
                args.append(self.eval(a, st))
        kwargs = []
        for k in n.keywords:
            kv_ = self.eval(k.value, st)
            if k.arg is None and kv_.op == "dict" and all(kk_.op == "const" and isinstance(kk_.a[0], str) for kk_, _ in kv_.a[0]) \
                    and len({kk_ for kk_, _ in kv_.a[0]}) == len(kv_.a[0]):
                kwargs.extend((kk_.a[0], vv_) for kk_, vv_ in kv_.a[0])     # **{'name': v} is name=v
                continue
            kwargs.append((k.arg if k.arg is not None else "**", kv_))
        args_t, kwargs_t = tuple(args), tuple(kwargs)
        if func.op == "attr" and func.a[1] == "get" and func.a[0].op == "global" and 1 <= len(args_t) <= 2 and not kwargs_t:
            mm = self.I.memo_mode(func.a[0].a[0])
            if mm is not None:
                return (args_t[1] if len(args_t) == 2 else NONE) if mm[0] == "miss" else mm[2]
        while func.op == "call" and func.a[0] == T("global", ("functools.partial",)) and func.a[1] \
                and not any(a.op == "star" for a in func.a[1]) \
                and not any(k == "**" for k, _ in func.a[2] + kwargs_t):
            # partial(f, a, k=v)(x) is f(a, x, k=v): recorded as the call it makes
            kw2 = dict(func.a[2])
            kw2.update(dict(kwargs_t))
            args_t, kwargs_t = tuple(func.a[1][1:]) + args_t, tuple(kw2.items())
            func = func.a[1][0]
        if kwargs_t:
            args_t, kwargs_t = self._positionalise(func, args_t, kwargs_t)
        if len(args_t) == 1 and not kwargs_t and args_t[0].op == "call" and args_t[0].a[0] == T("builtin", ("map",)) \
                and len(args_t[0].a[1]) == 2 and not args_t[0].a[2] and not any(a.op == "star" for a in args_t[0].a[1]) \
                and ((func.op == "builtin" and func.a[0] in ("list", "tuple", "set", "frozenset", "sorted", "any", "all", "sum",
                                                              "min", "max"))
                     or (func.op == "attr" and func.a[1] == "join")):
            # a consumer that exhausts its argument: consumer(map(f, xs)) is consumer(f(x) for x in xs)
            uid = self.I.fresh()
            inner = State(dict(st.env), st.heap, st.pc)
            inner.env[f"__mf{uid}"], inner.env[f"__mx{uid}"] = args_t[0].a[1]
            gen = ast.parse(f"(__mf{uid}(__me{uid}) for __me{uid} in __mx{uid})", mode="eval").body
            for x in ast.walk(gen):
                ast.copy_location(x, n)
            args_t = (self.eval(gen, inner),)
        cr = CallRec(func, args_t, kwargs_t, st.pc, self.loops, self.trys, self.seq(), self.qualname, n.lineno,
                     n.col_offset)
        self.rec.calls.append(cr)
        saved_nodes = getattr(self, "_call_arg_nodes", None)
        self._call_arg_nodes = (list(n.args) if not any(isinstance(a, ast.Starred) for a in n.args) else [],
                                {k.arg: k.value for k in n.keywords if k.arg})
        try:
            res = self.call(func, args_t, kwargs_t, st, n)
        finally:
            self._call_arg_nodes = saved_nodes
        cr.result = res
        return res

    def _positionalise(self, func: T, args: tuple, kwargs: tuple):
        """f(a, y=c, x=b) for a package function def f(p, x, y) is f(a, b, c): one spelling of the same call."""
        fnode, skip = None, 0
        if func.op == "func":
            found = self.repo.lookup(func.a[0])
            if found and found[0] == "func":
                fnode = found[2]
        elif func.op == "attr" and func.a[0].op == "class":
            found = self.repo.lookup(func.a[0].a[0])
            if found and found[0] == "class" and func.a[1] in found[2].methods:
                fnode = found[2].methods[func.a[1]]
                decos = {ast.unparse(d) for d in fnode.decorator_list}
                skip = 1 if "classmethod" in decos else 0
        elif func.op == "attr" and func.a[0].op == "param" and func.a[0].a[0] == "self" and self.self_cls is not None \
                and func.a[1] in self.self_cls.methods:
            fnode = self.self_cls.methods[func.a[1]]
            decos = {ast.unparse(d) for d in fnode.decorator_list}
            skip = 0 if "staticmethod" in decos else 1
        if fnode is None or fnode.args.vararg or fnode.args.kwarg or fnode.args.posonlyargs or fnode.args.kwonlyargs \
                or any(a.op == "star" for a in args) or any(k == "**" for k, _ in kwargs):
            return args, kwargs
        names = [a.arg for a in fnode.args.args][skip:]
        kw = dict(kwargs)
        out = list(args)
        for nme in names[len(args):]:
            if nme not in kw:
                break
            out.append(kw.pop(nme))
        if kw:
            return args, kwargs
        return tuple(out), ()

    def call(self, func: T, args: tuple, kwargs: tuple, st: State, node) -> T:
        opaque = T("call", (func, args, kwargs))
        # ---- constructors of package classes
        if func.op == "class":
            found = self.repo.lookup(func.a[0])
            if found and found[0] == "class":
                ci: ClassInfo = found[2]
                if ci.is_dataclass and not ci.enum_kind and "__init__" not in ci.methods:
                    new = self.construct(ci, args, kwargs, st)
                    if new is not None:
                        return new
                if not ci.is_dataclass and not ci.enum_kind and "__init__" in ci.methods and "__new__" not in ci.methods \
                        and all(b in ("object", "builtins.object") for b in ci.bases) and not ci.node.decorator_list \
                        and ci.qualname not in API_CLASSES:
                    # a plain helper class: the object is what __init__ makes of an empty one
                    blank = T("new", (ci.qualname, ()))
                    r = self.inline(ci.module, ci.methods["__init__"], ci, args, kwargs, st, f"{ci.qualname}.__init__", recv=blank)
                    rf = getattr(self, "_recv_final", None)
                    self._recv_final = None
                    if r is not None and rf is not None and rf.op == "new":
                        return rf
                if ci.enum_kind and len(args) == 1 and args[0].op == "const":
                    for mname, mval in ci.members:
                        if mval == args[0].a[0]:
                            return T("enum", (ci.qualname, mname))
            return opaque
        # ---- a dispatch table of the object: self.TABLE[key](args) with TABLE = {K1: self.m1, ...} set once in __init__
        if func.op == "sub" and func.a[0].op == "attr" and func.a[0].a[0] == param("self") and self.self_cls is not None \
                and func.a[1].op != "const" and not any(a.op == "star" for a in args) and not any(k == "**" for k, _ in kwargs):
            items = self.I.instance_table(self.self_cls, func.a[0].a[1])
            if items:
                return self._dispatch_call(items, func.a[1], args, kwargs, st, node)
        # ---- package functions
        if func.op == "func":
            found = self.repo.lookup(func.a[0])
            if found and found[0] == "func":
                r = self.inline(found[1], found[2], None, args, kwargs, st, func.a[0])
                if r is not None:
                    return r
                g = self._generator_as_comp(found[1], found[2], args, kwargs, st)
                if g is not None:
                    return g
            return opaque
        # ---- lambdas / local defs
        if func.op == "call" and func.a[0] == T("global", ("functools.partial",)) and func.a[1] \
                and not any(a.op == "star" for a in func.a[1]) and not any(k == "**" for k, _ in func.a[2]):
            # partial(f, a, k=v)(x)  is  f(a, x, k=v)
            kw2 = dict(func.a[2])
            kw2.update(dict(kwargs))
            return self.call(func.a[1][0], tuple(func.a[1][1:]) + tuple(args), tuple(kw2.items()), st, node)
        if func.op == "global" and func.a[0] == "operator.getitem" and len(args) == 2 and not kwargs:
            key = T("sub", (args[0], args[1]))
            if key in st.heap:
                return st.heap[key]
            self.rec.pops.append(POp("sub", args[0], args[1], st.pc, self.loops, self.trys, self.seq(), self.qualname,
                                     getattr(node, "lineno", 0), getattr(node, "col_offset", 0), args[0]))
            return key
        if func.op == "lambda":
            r = self.apply_lambda(func, args, kwargs, st)
            if r is not None:
                return r
            return opaque
        # ---- methods
        if func.op == "attr":
            recv, name = func.a
            # self.method(...)
            if recv.op == "param" and recv.a[0] in ("self", "cls") and self.self_cls is not None \
                    and name in self.self_cls.methods:
                r = self.inline(self.self_cls.module, self.self_cls.methods[name], self.self_cls, args, kwargs, st,
                                f"{self.self_cls.qualname}.{name}", recv=recv)
                if r is not None:
                    return r
                m_ = self.self_cls.methods[name]
                if any(isinstance(x, ast.Yield) for x in ast.walk(m_)):
                    # a generator method that is one filtering / mapping loop over its argument: the generator expression
                    static_ = any(ast.unparse(d_) == "staticmethod" for d_ in m_.decorator_list)
                    g = self._generator_as_comp(self.self_cls.module, m_, tuple(args) if static_ else (recv,) + tuple(args),
                                                kwargs, st, cls=self.self_cls)
                    if g is not None:
                        return g
                return opaque
            if recv.op == "new":
                ci = self.repo.lookup(recv.a[0])[2]
                if name in ci.methods:
                    r = self.inline(ci.module, ci.methods[name], ci, args, kwargs, st, f"{ci.qualname}.{name}", recv=recv)
                    if r is not None:
                        rf = getattr(self, "_recv_final", None)
                        root_ = node.func.value if isinstance(node, ast.Call) and isinstance(node.func, ast.Attribute) else None
                        if rf is not None and rf != recv and isinstance(root_, ast.Name) and root_.id in st.env \
                                and st.env[root_.id] == recv:
                            st.env[root_.id] = rf           # the method changed its object: the caller's name sees it
                        self._recv_final = None
                        return r
            if recv.op == "class" and (".trace_handlers." in recv.a[0] or recv.a[0].rsplit(".", 1)[1].startswith("_")):
                # an alternative constructor of a result class: `DyldUuidMapA.from_events([e])` (classmethod / staticmethod)
                f_ = self.repo.lookup(recv.a[0])
                if f_ and f_[0] == "class" and name in f_[2].methods:
                    decos = {ast.unparse(d) for d in f_[2].methods[name].decorator_list}
                    if decos & {"classmethod", "staticmethod"}:
                        r = self.inline(f_[2].module, f_[2].methods[name], f_[2], args, kwargs, st, f"{f_[2].qualname}.{name}",
                                        recv=recv)
                        self._recv_final = None
                        if r is not None:
                            return r
            if recv.op == "global" and recv.a[0].startswith("pykdebugparser."):
                mo = self._module_object(recv.a[0])
                if mo is not None:
                    ci_ = self.repo.lookup(mo.a[0])[2]
                    if name in ci_.methods:
                        r = self.inline(ci_.module, ci_.methods[name], ci_, args, kwargs, st, f"{ci_.qualname}.{name}", recv=mo)
                        self._recv_final = None
                        if r is not None:
                            return r
                inst = self._singleton_instance(recv.a[0])
                if inst is not None:
                    obj_ = T("new", (inst.qualname, ()))
                    if name in inst.methods:
                        r = self.inline(inst.module, inst.methods[name], inst, args, kwargs, st, f"{inst.qualname}.{name}", recv=obj_)
                        self._recv_final = None
                        if r is not None:
                            return r
                    elif name in ("format", "vformat") and self._is_formatter_class(inst):
                        r = self._formatter_model(inst, obj_, name, args, kwargs, st)
                        if r is not None:
                            return r
            if name in MUTATORS:
                pth = self.path_of(node.func.value, st) if isinstance(node, ast.Call) and isinstance(node.func, ast.Attribute) else None
                self.effect("mut-call", recv, name, args[-1] if args else None, args, st, node, path=pth)
                if pth is not None and pth.op in ("attr", "sub"):
                    # the object reached through this path is no longer what it was: later reads must not be
                    # identified with earlier ones
                    st.heap[pth] = T("mut", (st.heap.get(pth, pth), name, args))
                root = node.func.value if isinstance(node, ast.Call) and isinstance(node.func, ast.Attribute) else None
                if isinstance(root, ast.Attribute) and isinstance(root.value, ast.Name) and root.value.id in st.env \
                        and st.env[root.value.id].op == "new" and root.attr in dict(st.env[root.value.id].a[1]):
                    # obj.field.append(x) on a helper object followed by value: the field is the mutated container from now on
                    obj_ = st.env[root.value.id]
                    oldf = dict(obj_.a[1])[root.attr]
                    st.env[root.value.id] = new_with(obj_, root.attr, T("mut", (oldf, name, args)))
                    st.heap.pop(pth, None) if pth is not None else None
                    root = None
                if isinstance(root, (ast.Subscript, ast.Attribute)):
                    # d[k].append(x) on a local container d: d is not what it was (its item changed)
                    base_ = root
                    while isinstance(base_, (ast.Subscript, ast.Attribute)):
                        base_ = base_.value
                    if isinstance(base_, ast.Name) and base_.id in st.env:
                        cur_ = st.env[base_.id]
                        inner_ = cur_
                        while inner_.op == "mut":
                            inner_ = inner_.a[0]
                        if inner_.op in ("dict", "list", "set") or (inner_.op == "call" and inner_.a[0].op in ("global", "builtin")
                                                                       and not _reached_object(inner_)):
                            st.env[base_.id] = T("mut", (cur_, f"item.{name}", (self.path_of(root, st),) + tuple(args)))
                if isinstance(root, ast.Name) and root.id in st.env and recv.op not in ("param",) \
                        and st.env[root.id].op != "alias":
                    st.env[root.id] = T("mut", (recv, name, args) + ((kwargs,) if kwargs else ()))
                    if name == "update" and recv.op == "dict" and len(args) <= 1:
                        # a local dict literal updated with literal pairs / another literal dict / keywords stays a literal
                        more = None
                        if not args:
                            more = ()
                        elif args[0].op == "dict":
                            more = args[0].a[0]
                        elif args[0].op in ("list", "tuple") and all(i.op == "tuple" and len(i.a[0]) == 2 for i in args[0].a[0]):
                            more = tuple((i.a[0][0], i.a[0][1]) for i in args[0].a[0])
                        elif args[0].op == "global" and args[0].a[0].startswith("pykdebugparser."):
                            gd_ = self._module_dict_literal(args[0].a[0])
                            if gd_ is not None:
                                more = gd_.a[0]
                        if more is not None and not any(k == "**" for k, _ in kwargs):
                            pairs_ = list(recv.a[0])
                            for k_, v_ in tuple(more) + tuple((const(k), v) for k, v in kwargs):
                                at_ = [i_ for i_, (k0_, _) in enumerate(pairs_) if k0_ == k_ and k_.op == "const"]
                                if at_:
                                    pairs_[at_[0]] = (k_, v_)       # an existing key keeps its place and takes the new value
                                else:
                                    pairs_.append((k_, v_))
                            st.env[root.id] = T("dict", (tuple(pairs_),))
            if recv.op == "const" and isinstance(recv.a[0], str) and name == "format" and not all(a.op == "const" for a in args):
                fs = _format_to_fstr(recv.a[0], args, kwargs)
                if fs is not None:
                    return fs
            if name in ("ljust", "rjust", "center") and 1 <= len(args) <= 2 and not kwargs and recv.op != "const" \
                    and args[0].op == "const" and isinstance(args[0].a[0], int) and not isinstance(args[0].a[0], bool) \
                    and args[0].a[0] >= 0 and (len(args) == 1 or (args[1].op == "const" and isinstance(args[1].a[0], str)
                                                                   and len(args[1].a[0]) == 1 and args[1].a[0] not in "{}")):
                # only strings have ljust: s.ljust(n) is f'{s:<n}'
                fill = args[1].a[0] if len(args) == 2 else ""
                return T("fstr", ((("val", recv, "", const(fill + {"ljust": "<", "rjust": ">", "center": "^"}[name] + str(args[0].a[0]))),),))
            if recv.op == "const" and isinstance(recv.a[0], (str, bytes)) and all(a.op == "const" for a in args) \
                    and name in ("lower", "upper", "strip", "format", "encode", "decode", "replace", "ljust", "rjust", "title",
                                 "capitalize", "lstrip", "rstrip", "removeprefix", "removesuffix", "swapcase", "casefold"):
                try:
                    v = getattr(recv.a[0], name)(*[a.a[0] for a in args])
                    if isinstance(v, (str, bytes)):
                        return const(v)
                except Exception:
                    pass
            return opaque
        # ---- functools.reduce(f, (a, b, c)[, init]) over a short literal / module-level tuple: f(f(a, b), c)
        if func.op == "global" and func.a[0] == "functools.reduce" and len(args) in (2, 3) and not kwargs:
            seq = args[1]
            if seq.op == "global" and seq.a[0].startswith("pykdebugparser."):
                f_ = self.repo.lookup(seq.a[0])
                if f_ and f_[0] == "const" and isinstance(f_[2], ast.Tuple) and 0 < len(f_[2].elts) <= 16 \
                        and all(isinstance(e_, (ast.Name, ast.Attribute)) for e_ in f_[2].elts):
                    fr_ = _Frame(self.I, f_[1], self.fnode, None, Record(), f"{f_[1].name}.<module>", self.depth + 1, self.stack)
                    seq = fr_.eval(f_[2], State({}, {}, ()))
            if seq.op in ("tuple", "list") and 0 < len(seq.a[0]) <= 16 and not any(i.op == "star" for i in seq.a[0]) \
                    and self.depth < self.I.inline_depth:
                items_ = list(seq.a[0])
                acc_ = args[2] if len(args) == 3 else items_.pop(0)
                for it_ in items_:
                    acc_ = self.call(args[0], (acc_, it_), (), st, node)
                return acc_
        # ---- builtins
        if func.op == "global" and func.a[0] in ("operator.attrgetter", "operator.itemgetter", "operator.methodcaller") \
                and args and not kwargs and all(a.op == "const" for a in args):
            # operator.attrgetter('a') is lambda x: x.a, itemgetter(k) is lambda x: x[k], methodcaller('m', c) is
            # lambda x: x.m(c)   (single constant arguments only)
            src = None
            kind = func.a[0].rsplit(".", 1)[1]
            if kind == "attrgetter" and len(args) == 1 and isinstance(args[0].a[0], str) and args[0].a[0].isidentifier():
                src = f"lambda _x: _x.{args[0].a[0]}"
            elif kind == "itemgetter" and len(args) == 1:
                src = f"lambda _x: _x[{args[0].a[0]!r}]"
            elif kind == "methodcaller" and isinstance(args[0].a[0], str) and args[0].a[0].isidentifier():
                src = f"lambda _x: _x.{args[0].a[0]}({', '.join(repr(a.a[0]) for a in args[1:])})"
            if src is not None:
                lam = ast.parse(src, mode="eval").body
                for sub in ast.walk(lam):
                    ast.copy_location(sub, node) if hasattr(node, "lineno") else None
                ast.fix_missing_locations(lam)
                return self.e_Lambda(lam, st)
        if func.op == "builtin":
            b = func.a[0]
            if b == "str" and len(args) == 1:
                a0 = args[0]
                if a0.op == "new":
                    ci = self.repo.lookup(a0.a[0])[2]
                    if "__str__" in ci.methods:
                        r = self.inline(ci.module, ci.methods["__str__"], ci, (), (), st, f"{ci.qualname}.__str__", recv=a0)
                        if r is not None:
                            return r
                if a0.op == "const" and isinstance(a0.a[0], (int, str, bool)):
                    return const(str(a0.a[0]))
            if b == "format" and 1 <= len(args) <= 2 and not kwargs and (len(args) == 1 or (
                    args[1].op == "const" and isinstance(args[1].a[0], str) and "{" not in args[1].a[0])):
                # format(x) is f'{x}', format(x, 'spec') is f'{x:spec}'
                return _fstr_of([_fstr_value(args[0], "", args[1].a[0] if len(args) == 2 else "")])
            if b == "bool" and len(args) == 1 and args[0].op == "const":
                return const(bool(args[0].a[0]))
            if b == "isinstance" and len(args) == 2 and not kwargs:
                f_ = self._fold_isinstance(args[0], args[1])
                if f_ is not None:
                    return const(f_)
            if b == "slice" and 1 <= len(args) <= 3 and not kwargs and all(a.op == "const" for a in args):
                pass            # stays a call term: x[slice(a, b)] is rewritten to the slice it is in e_Subscript
            if b in ("tuple", "list") and len(args) == 1 and not kwargs and args[0].op in ("mut", "list", "tuple"):
                # tuple(fields) of a local list filled by unconditional appends: the literal with those items (a copy)
                items_ = self.expand_star(args[0], None)
                if not any(i.op == "star" for i in items_):
                    return T(b, (tuple(items_),))
            if b == "len" and len(args) == 1:
                a0 = args[0]
                if a0.op == "const" and isinstance(a0.a[0], (str, bytes, tuple)):
                    return const(len(a0.a[0]))
                if a0.op in ("tuple", "list") and not any(i.op == "star" for i in a0.a[0]):
                    return const(len(a0.a[0]))
                if a0.op == "global":
                    f_ = self.repo.lookup(a0.a[0])          # a module-level tuple literal: immutable, its length is known
                    if f_ and f_[0] == "const" and isinstance(f_[2], ast.Tuple) \
                            and not any(isinstance(e_, ast.Starred) for e_ in f_[2].elts):
                        return const(len(f_[2].elts))
            if b == "setattr" and len(args) == 3 and args[1].op == "const" and isinstance(args[1].a[0], str) and not kwargs:
                # setattr(obj, 'name', v) is obj.name = v
                pth = self.path_of(node.args[0], st) if isinstance(node, ast.Call) and len(node.args) == 3 else args[0]
                self.effect("attr-store", args[0], args[1].a[0], args[2], (), st, node, path=pth)
                root = node.args[0] if isinstance(node, ast.Call) and len(node.args) == 3 else None
                if isinstance(root, ast.Name) and args[0].op == "new" and root.id in st.env:
                    st.env[root.id] = new_with(args[0], args[1].a[0], args[2])
                else:
                    st.heap[T("attr", (args[0], args[1].a[0]))] = args[2]
                return NONE
            if b == "getattr" and len(args) == 2 and args[1].op == "const" and isinstance(args[1].a[0], str) and not kwargs:
                return self.attr(args[0], args[1].a[0], st, node if isinstance(node, ast.AST) and hasattr(node, "lineno") else None)
            if b in ("hex", "chr", "int", "abs") and len(args) == 1 and args[0].op == "const" and isinstance(args[0].a[0], int):
                try:
                    return const({"hex": hex, "chr": chr, "int": int, "abs": abs}[b](args[0].a[0]))
                except Exception:
                    pass
            return opaque
        return opaque

    def _pure_expression(self, mod: ModuleInfo, node) -> bool:
        """Names, attributes, constants, operators, subscripts - and calls of builtins without effects or of module-level
        functions of the package whose whole body is `return <such an expression>`."""
        for x in ast.walk(node):
            if isinstance(x, (ast.Yield, ast.YieldFrom, ast.Await, ast.NamedExpr, ast.Lambda, ast.ListComp, ast.GeneratorExp,
                              ast.SetComp, ast.DictComp)):
                return False
            if isinstance(x, ast.Call):
                if isinstance(x.func, ast.Name) and x.func.id in ("len", "int", "str", "hex", "bool", "abs", "min", "max", "isinstance",
                                                                  "tuple", "frozenset", "bytes") and x.func.id not in mod.functions:
                    continue
                dn = self.repo.dotted(mod, x.func) if isinstance(x.func, (ast.Name, ast.Attribute)) else None
                f = self.repo.lookup(dn) if dn and dn.startswith("pykdebugparser.") else None
                if not (f and f[0] == "func"):
                    return False
                body = [b for b in f[2].body if not (isinstance(b, ast.Expr) and isinstance(b.value, ast.Constant))]
                if not (len(body) == 1 and isinstance(body[0], ast.Return) and body[0].value is not None
                        and not any(isinstance(y, ast.Call) for y in ast.walk(body[0].value))):
                    return False
        return True

    def _generator_as_comp(self, mod: ModuleInfo, fnode, args: tuple, kwargs: tuple, st: State, cls=None) -> Optional[T]:
        """A generator function whose body is one loop that yields under conditions,

            def picked(xs, k):
                for x in xs:
                    if c(x, k):
                        yield e(x)

        called with arguments, is the generator expression (e(x) for x in xs if c(x, k)) over those arguments."""
        if self.depth >= self.I.inline_depth or id(fnode) in self.stack \
                or any(ast.unparse(d_) != "staticmethod" for d_ in fnode.decorator_list):
            return None
        if any(a.op == "star" for a in args) or any(k == "**" for k, _ in kwargs):
            return None
        mod = getattr(self.repo, "fn_home", {}).get(id(fnode), mod)
        body = [b for b in fnode.body if not (isinstance(b, ast.Expr) and isinstance(b.value, ast.Constant))]
        if len(body) != 1 or not isinstance(body[0], ast.For) or body[0].orelse:
            return None
        loop = body[0]
        conds = []
        inner = list(loop.body)
        # iteration-local names computed first (`cls = kdbg_class(event.eventid)`) are written out where they are used
        local_defs = {}
        while len(inner) > 1 and isinstance(inner[0], ast.Assign) and len(inner[0].targets) == 1 \
                and isinstance(inner[0].targets[0], ast.Name) and not any(
                    isinstance(x, (ast.Yield, ast.YieldFrom, ast.Await, ast.NamedExpr, ast.Lambda)) for x in ast.walk(inner[0].value)):
            nm_ = inner[0].targets[0].id
            if nm_ in local_defs or any(isinstance(x, ast.Name) and x.id == nm_ for x in ast.walk(loop.target)):
                return None
            if not self._pure_expression(mod, inner[0].value):
                return None         # (the expression is written out at every use: it must not do anything but compute)
            local_defs[nm_] = _subst_names(inner[0].value, local_defs)
            inner = inner[1:]
        if local_defs:
            if any(isinstance(x, ast.Name) and x.id in local_defs and isinstance(x.ctx, ast.Store) for b_ in inner for x in ast.walk(b_)):
                return None
            inner = [_subst_names(b_, local_defs) for b_ in inner]
        if len(inner) == 1 and isinstance(inner[0], ast.If) and inner[0].orelse:
            # if a: yield x / elif b: yield x: the branches exclude each other, x is yielded once when a or b
            tests, cur_, elt_src = [], inner[0], None
            while True:
                if not (len(cur_.body) == 1 and isinstance(cur_.body[0], ast.Expr) and isinstance(cur_.body[0].value, ast.Yield)
                        and cur_.body[0].value.value is not None):
                    return None
                src_ = ast.unparse(cur_.body[0].value.value)
                if elt_src is not None and src_ != elt_src:
                    return None
                elt_src = src_
                tests.append(cur_.test)
                if not cur_.orelse:
                    break
                if len(cur_.orelse) == 1 and isinstance(cur_.orelse[0], ast.If):
                    cur_ = cur_.orelse[0]
                    continue
                return None
            merged = ast.copy_location(ast.If(test=ast.copy_location(ast.BoolOp(op=ast.Or(), values=tests), inner[0]),
                                              body=inner[0].body, orelse=[]), inner[0])
            inner = [merged]
        while len(inner) == 1 and isinstance(inner[0], ast.If) and not inner[0].orelse:
            conds.append(inner[0].test)
            inner = inner[0].body
        if not (len(inner) == 1 and isinstance(inner[0], ast.Expr) and isinstance(inner[0].value, ast.Yield)
                and inner[0].value.value is not None):
            return None
        if any(isinstance(x, (ast.Yield, ast.YieldFrom, ast.Await, ast.NamedExpr)) for c in conds + [loop.iter] for x in ast.walk(c)):
            return None
        gen = ast.GeneratorExp(elt=inner[0].value.value,
                               generators=[ast.comprehension(target=loop.target, iter=loop.iter, ifs=conds, is_async=0)])
        ast.copy_location(gen, loop)
        ast.fix_missing_locations(gen)
        fr = _Frame(self.I, mod, fnode, cls, self.rec, f"{mod.name}.{fnode.name}", self.depth + 1, self.stack + (id(fnode),),
                    base_pc=st.pc, base_loops=self.loops, base_trys=self.trys)
        cs = fr.bind_params({}, symbolic_missing=False, positional=tuple(args), kwargs=kwargs)
        cs.heap = st.heap
        return fr.eval(gen, cs)

    def construct(self, ci: ClassInfo, args: tuple, kwargs: tuple, st: State) -> Optional[T]:
        names = ci.field_names()
        if any(a.op == "star" for a in args) or any(k == "**" for k, _ in kwargs):
            return None
        if len(args) > len(names):
            return T("new", (ci.qualname, tuple(zip(names, args)) + (("<extra>", T("tuple", (args[len(names):],))),)))
        bound: Dict[str, T] = {}
        for nme, a in zip(names, args):
            bound[nme] = a
        for k, v in kwargs:
            bound[k] = v
        fields = []
        for nme, dflt in ci.fields:
            if nme in bound:
                fields.append((nme, bound.pop(nme)))
            elif dflt is not None:
                fr = _Frame(self.I, ci.module, self.fnode, None, self.rec, self.qualname, self.depth, self.stack)
                fields.append((nme, fr.eval(dflt, State({}, {}, ()))))
            else:
                fields.append((nme, T("unknown", (f"missing-field:{nme}",))))
        for k, v in bound.items():
            fields.append((f"<unknown:{k}>", v))
        return T("new", (ci.qualname, tuple(fields)))

    def inline(self, mod: ModuleInfo, fnode, cls: Optional[ClassInfo], args: tuple, kwargs: tuple, st: State,
               qualname: str, recv: Optional[T] = None) -> Optional[T]:
        if self.depth >= self.I.inline_depth or id(fnode) in self.stack or not self.I.is_simple(fnode):
            return None
        if any(a.op == "star" for a in args) or any(k == "**" for k, _ in kwargs):
            return None
        for d in fnode.decorator_list:
            dn = ast.unparse(d)
            if dn not in ("staticmethod", "classmethod") and not (dn == "property" and getattr(self, "_allow_property", False)) \
                    and not (cls is None and self.I.decorators_return_function(mod, fnode)):
                return None
        self._allow_property = False
        mod = getattr(self.repo, "fn_home", {}).get(id(fnode), mod)
        fr = _Frame(self.I, mod, fnode, cls, self.rec, qualname, self.depth + 1, self.stack + (id(fnode),),
                    base_pc=st.pc, base_loops=self.loops, base_trys=self.trys)
        pos = list(args)
        is_static = any(ast.unparse(d) == "staticmethod" for d in fnode.decorator_list)
        if cls is not None and not is_static:
            pos.insert(0, recv if recv is not None else param("self"))
        callee_state = fr.bind_params({}, symbolic_missing=False, positional=tuple(pos), kwargs=kwargs)
        callee_state.heap = st.heap      # share heap (stores visible to caller)
        before_params = dict(callee_state.env)
        final = fr.exec_block(fnode.body, callee_state)
        if fr.is_generator:
            return None
        rets = fr.local_returns
        self._recv_final = None
        if cls is not None and not is_static and recv is not None and recv.op == "new" and fnode.args.args:
            # the receiver after the call: what `self` denotes at each exit of the method, joined
            sname = fnode.args.args[0].arg
            exits_ = list(fr.exit_states) + ([(final.pc, final.env)] if final is not None else [])
            if exits_:
                base_l = len(st.pc)
                merged_ = exits_[-1][1].get(sname, recv)
                for pc_, env_ in reversed(exits_[:-1]):
                    v_ = env_.get(sname, recv)
                    cond_ = pc_to_term(pc_[base_l:])
                    merged_ = v_ if cond_ is None else (merged_ if v_ == merged_ else merge_terms(cond_, v_, merged_))
                self._recv_final = merged_
        # a local container of the caller that the callee mutated in place: the caller's name must see the change
        arg_nodes = getattr(self, "_call_arg_nodes", None)
        if arg_nodes is not None:
            a_ = fnode.args
            pnames = [p_.arg for p_ in a_.posonlyargs + a_.args]
            if cls is not None and not is_static:
                pnames = pnames[1:]
            exits = list(fr.exit_states)
            if final is not None:
                exits.append((final.pc, final.env))
            base_len0 = len(st.pc)
            for pname, anode in list(zip(pnames, arg_nodes[0])) + [(k, v) for k, v in arg_nodes[1].items()]:
                if not isinstance(anode, ast.Name) or anode.id not in st.env or pname not in before_params or not exits:
                    continue
                b = before_params[pname]
                if b.op not in ("dict", "list", "set", "mut", "ite", "new"):
                    continue
                vals = [(pc, env.get(pname, b)) for pc, env in exits]
                if all(v is b or v == b for _, v in vals):
                    continue
                merged = vals[-1][1]
                for pc, v in reversed(vals[:-1]):
                    cond = pc_to_term(pc[base_len0:])
                    merged = v if cond is None else (merged if v == merged else merge_terms(cond, v, merged))
                st.env[anode.id] = merged
        if final is not None and rets:
            # the body can also run to its end: an implicit `return None` on that path
            rets = rets + [(final.pc, NONE)]
        if not rets:
            return NONE
        # fold: the last return is the default; earlier ones are guarded by the part of their pc beyond the caller's
        base_len = len(st.pc)
        out = rets[-1][1]
        for pc, v in reversed(rets[:-1]):
            cond = pc_to_term(pc[base_len:])
            out = v if cond is None else (v if v == out else merge_terms(cond, v, out))
        return out

    def apply_lambda(self, func: T, args: tuple, kwargs: tuple, st: State) -> Optional[T]:
        node, env, mod, cls, kind = self.I.lambdas[func.a[0]]
        if self.depth >= self.I.inline_depth or id(node) in self.stack:
            return None
        if kind == "def" and not self.I.is_simple(node):
            return None
        fr = _Frame(self.I, mod, node, cls, self.rec, self.qualname + ".<lambda>", self.depth + 1,
                    self.stack + (id(node),), base_pc=st.pc, base_loops=self.loops, base_trys=self.trys)
        callee_state = fr.bind_params({}, symbolic_missing=False, positional=args, kwargs=kwargs)
        merged = dict(env)
        merged.update(callee_state.env)
        callee_state.env = merged
        callee_state.heap = st.heap
        if kind == "lambda":
            return fr.eval(node.body, callee_state)
        final = fr.exec_block(node.body, callee_state)
        rets = fr.local_returns
        if final is not None and rets:
            rets = rets + [(final.pc, NONE)]
        if not rets:
            return NONE
        base_len = len(st.pc)
        out = rets[-1][1]
        for pc, v in reversed(rets[:-1]):
            cond = pc_to_term(pc[base_len:])
            out = v if cond is None else T("ite", (cond, v, out))
        return out


# ------------------------------------------------------------------- helpers
def _as_load(node):
    import copy
    n = copy.copy(node)
    n.ctx = ast.Load()
    return n


def _dedupe(xs):
    out = []
    for x in xs:
        if x not in out:
            out.append(x)
    return out


def truth(t: T) -> Optional[bool]:
    """Definite truth value of a term, or None."""
    if t.op == "const":
        return bool(t.a[0])
    if t.op in ("tuple", "list", "set") and not any(i.op == "star" for i in t.a[0]):
        return len(t.a[0]) > 0
    if t.op == "dict":
        return len(t.a[0]) > 0
    if t.op in ("new", "enum", "func", "class", "lambda"):
        return True
    if t.op == "not":
        v = truth(t.a[0])
        return None if v is None else not v
    return None


def new_with(new: T, name: str, v: T) -> T:
    fields = []
    found = False
    for k, old in new.a[1]:
        if k == name:
            fields.append((k, v))
            found = True
        else:
            fields.append((k, old))
    if not found:
        fields.append((name, v))
    return T("new", (new.a[0], tuple(fields)))


def merge(a: State, b: State, cond: T, base_pc: PC) -> State:
    env = {}
    for k in list(a.env.keys()) + [k for k in b.env.keys() if k not in a.env]:
        va, vb = a.env.get(k, UNDEF), b.env.get(k, UNDEF)
        env[k] = va if va == vb else merge_terms(cond, va, vb)
    heap = {}
    for k in list(a.heap.keys()) + [k for k in b.heap.keys() if k not in a.heap]:
        va, vb = a.heap.get(k), b.heap.get(k)
        if va is None:
            va = k
        if vb is None:
            vb = k
        heap[k] = va if va == vb else T("ite", (cond, va, vb))
    return State(env, heap, base_pc)


def get_form(cond: T, a: T, b: T) -> Optional[T]:
    """`d[k] if k in d else x` (or the `not in` mirror image) is `d.get(k, x)`: one form for both spellings."""
    if cond.op == "cmp" and cond.a[0] in ("in", "not in"):
        hit, miss = (a, b) if cond.a[0] == "in" else (b, a)
        k, d = cond.a[1], cond.a[2]
        if hit == T("sub", (d, k)) and d.op not in ("tuple", "list", "set", "const"):
            return T("call", (T("attr", (d, "get")), (k,) if miss == NONE else (k, miss), ()))
    return None


def merge_terms(cond: T, va: T, vb: T) -> T:
    if va.op == "alias" and isinstance(va.a[0], T):
        va = va.a[0]
    if vb.op == "alias" and isinstance(vb.a[0], T):
        vb = vb.a[0]
    if va == vb:
        return va
    g = get_form(cond, va, vb)
    if g is not None:
        return g
    # merge field-wise when both sides are the same constructed class (keeps objects inspectable)
    if va.op == "new" and vb.op == "new" and va.a[0] == vb.a[0] and [k for k, _ in va.a[1]] == [k for k, _ in vb.a[1]]:
        return T("new", (va.a[0], tuple((k, x if x == y else merge_terms(cond, x, y))
                                        for (k, x), (_, y) in zip(va.a[1], vb.a[1]))))
    return T("ite", (cond, va, vb))


# ------------------------------------------------------------ term utilities
def atoms(t: T):
    """Leaf-ish atoms of interest inside a term (params, globals, attr/sub chains rooted at params)."""
    for x in walk(t):
        if x.op in ("param", "global", "elem", "enum", "builtin", "func", "class"):
            yield x


def contains(t: T, sub: T) -> bool:
    return any(x == sub for x in walk(t))


def final_widen(rec: "Record", t: T) -> T:
    """A loop-carried variable seen inside its loop only shows its initial value; return the variable's complete
    widened term (initial value and the value at the end of the body) when it is known."""
    if t.op == "widen" and isinstance(t.a[1], int):
        lr = rec.loops.get(t.a[1])
        if lr is not None and t.a[0] in lr.carried:
            return lr.carried[t.a[0]]
    return t


def resolve_widens(rec: "Record", t: T) -> T:
    m = {x: final_widen(rec, x) for x in walk(t) if x.op == "widen"}
    m = {k: v for k, v in m.items() if k != v}
    return subst(t, m) if m else t


def root_of(t: T) -> T:
    """Root object of an attr/sub/slice chain."""
    while t.op in ("attr", "sub", "slice"):
        t = t.a[0]
    return t


_ID_POS = {"lambda": 0, "bound": 1, "elem": 1, "widen": 1, "broke": 0}


def canon(obj):
    """Alpha-rename the interpreter-generated ids (lambdas, loop variables) by order of first appearance,
    so that terms produced by two different runs can be compared structurally."""
    mapping: Dict[int, int] = {}

    def rid(i):
        if not isinstance(i, int):
            return i
        if i not in mapping:
            mapping[i] = len(mapping) + 1
        return mapping[i]

    def go(x):
        if isinstance(x, T):
            pos = _ID_POS.get(x.op)
            if pos is not None and len(x.a) > pos:
                a = list(x.a)
                a[pos] = rid(a[pos])
                return T(x.op, tuple(go(e) if j != pos else e for j, e in enumerate(a)))
            return T(x.op, go(x.a))
        if isinstance(x, tuple):
            return tuple(go(e) for e in x)
        if isinstance(x, list):
            return [go(e) for e in x]
        return x

    return go(obj)
